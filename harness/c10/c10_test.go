package c10

import (
	"bytes"
	"crypto"
	"crypto/ecdsa"
	"crypto/rsa"
	"encoding/base64"
	"encoding/binary"
	"fmt"
	"math/big"
	"math/bits"
	"os"
	"runtime"
	"strings"
	"sync"

	"github.com/miekg/dns"
	"pgregory.net/rapid"

	"verif/harness/gen"
	"verif/harness/pbt"
	ref "verif/harness/refcrypto"
	wm "verif/harness/wiremodel"
)

const (
	findPadded   = "rrsig-ecdsa-padded"  // DESIGN §4 #8
	findNXT      = "rrsig-nxt-case"      // DESIGN §4 #9
	findRootWild = "rrsig-root-wildcard" // DESIGN §4 #10
	// round 7 (remarks of the breakers about the unchanged library)
	findDDD        = "rrsig-ddd-letters"      // letters written as \DDD are not folded / not recognised as letters
	findMixedOwner = "rrsig-mixed-case-rrset" // records of one RRset spelling the owner in different letter case
	findTag0       = "rrsig-keytag-zero"      // Sign refuses a key whose tag is 0
	// round 9
	findStarLabel = "rrsig-star-prefixed-label" // Sign takes every owner whose text begins with "*" for a wildcard
	// round 10
	findTextCompare = "rrsig-names-compared-as-text" // Verify compares owner / signer / key owner as (folded) text: `w\ww.` is not `www.`
)

var algs = []uint8{ref.AlgRSASHA1, ref.AlgRSASHA1NSEC3, ref.AlgRSASHA256, ref.AlgRSASHA512, ref.AlgECDSAP256, ref.AlgECDSAP384, ref.AlgEd25519}

type sigCase struct {
	Set      []wm.Rec // same owner (identical spelling), class and type; may contain duplicates
	Signer   wm.Name  // zone name: a suffix of the owner
	SignerAs wm.Name  // Signer as written into the RRSIG (letter case may differ)
	KeyOwner wm.Name  // Signer as written into the DNSKEY owner (letter case may differ)
	Alg      uint8
	KeySlot  int
	KeySeed  []byte
	KeyFlags uint16 // ZONE bit set
	OrigTTL  uint32 // 0: Sign takes the TTL of the first record
	Incep    uint32
	Expir    uint32
	// material for the invariances
	Perm          []int    // a permutation seed: record i moves to position Perm[i] mod n (applied as a sort key)
	Dup           int      // index of a record that is repeated
	TTLs          []uint32 // replacement current TTLs
	Expansion     [][]byte // labels that replace a leading "*" of the owner (wildcard expansion)
	Pad           bool     // try the zero-padded ECDSA signature
	NoCaseInv     bool     // set by the generator only (known finding #9, NXT): the RDATA-name case invariance is not evaluated
	EmbeddedImage bool     // set by the generator: one record's opaque RDATA ends / begins with the canonical form of another (evidence class only)
	ShortR        int      // ECDSA: n > 0 = Sign gets a signer using the n-th nonce whose point has an X with two leading zero octets (r short)
	ShortS        bool     // ECDSA: the inception time is searched (upwards from Incep) for a digest that gives an s with two leading zero octets
	SigSample     []int    // sampled signature bit positions for slow algorithms
	KeySample     []int    // sampled key bit positions for the re-tagged key alteration
	// round 7
	Spell      spelling // letters of the names handed to the library written as \DDD escapes (per site a position mask)
	MixedOwner bool     // set by the generator: records may spell the owner in different letter case, and the
	// invariance "letter case of the owner changed in ONE record" is evaluated
	// round 9
	StarLabel bool // set by the generator: the owner lies below the zone and its first label merely STARTS with "*" ("*foo"):
	// asserted that the RRSIG Sign makes for it is not good for the same records under another owner
}

func privFor(alg uint8, slot int, seed []byte) (crypto.PrivateKey, error) {
	switch alg {
	case ref.AlgRSASHA1, ref.AlgRSASHA1NSEC3, ref.AlgRSASHA256, ref.AlgRSASHA512:
		return ref.RSAKey(slot), nil
	case ref.AlgECDSAP256, ref.AlgECDSAP384:
		return ref.ECDSAKeyFromSeed(alg, seed)
	case ref.AlgEd25519:
		return ref.Ed25519KeyFromSeed(seed), nil
	}
	return nil, fmt.Errorf("algorithm %d not in the domain", alg)
}

// exhaustive: the thorough tier enumerates every signature bit of long signatures and every position
// of the foreign record - but not inside the coverage-guided layer (pbt.FuzzGen; the driver sets
// VERIF_FUZZ): its 16 workers give one input 10 s of wall time each, which a case with a 4096-bit RSA
// key exceeds on a loaded machine ("fuzzing process hung or terminated unexpectedly"). There the
// sampled forms of the quick tier are used; the rapid runs of the thorough tier keep the full ones.
func exhaustive() bool { return pbt.Thorough() && os.Getenv("VERIF_FUZZ") == "" }

func isWild(n wm.Name) bool { return len(n) > 0 && string(n[0]) == "*" }

func hasSuffix(n, suffix wm.Name) bool {
	return len(n) >= len(suffix) && equalFold(wm.Name(n[len(n)-len(suffix):]), suffix)
}

func parallelEach(n int, f func(i int) bool) []bool {
	out := make([]bool, n)
	workers := min(4, runtime.GOMAXPROCS(0))
	if n < 64 || workers < 2 {
		for i := 0; i < n; i++ {
			out[i] = f(i)
		}
		return out
	}
	var wg sync.WaitGroup
	var pmu sync.Mutex
	var pv any
	for w := 0; w < workers; w++ {
		wg.Add(1)
		go func(w int) {
			defer wg.Done()
			defer func() {
				if r := recover(); r != nil {
					pmu.Lock()
					if pv == nil {
						pv = r
					}
					pmu.Unlock()
				}
			}()
			for i := w; i < n; i += workers {
				out[i] = f(i)
			}
		}(w)
	}
	wg.Wait()
	if pv != nil {
		panic(pv)
	}
	return out
}

// changeField alters field i of r so that its wire form differs and stays well-formed
// (ok=false when the field cannot be altered in isolation).
func changeField(r *wm.Rec, i int, spec wm.FieldSpec) bool {
	f := &r.Fields[i]
	flip := func(b []byte) []byte {
		if len(b) == 0 {
			return []byte{'x'}
		}
		b[len(b)/2] ^= 0x01
		return b
	}
	switch f.K {
	case wm.U8, wm.U16, wm.U32, wm.U48, wm.U64:
		switch spec.Hint {
		case "gwtype":
			return false
		case "amtgwtype":
			f.U ^= 0x80
		default:
			f.U ^= 1
		}
	case wm.NameC, wm.NameU:
		if len(f.N) > 0 {
			f.N[0][0] ^= 0x01
		} else {
			f.N = wm.Name{{'x'}}
		}
	case wm.Names:
		f.NL = append(f.NL, wm.Name{{'x'}})
	case wm.Str, wm.Rest, wm.L8, wm.L16, wm.IPv4, wm.IPv6:
		f.B = flip(f.B)
	case wm.Strs:
		if len(f.L) == 0 {
			f.L = [][]byte{{'x'}}
		} else {
			f.L[0] = flip(f.L[0])
		}
	case wm.Bitmap:
		if len(f.T) > 0 && f.T[0] == 1 {
			f.T = f.T[1:]
		} else if len(f.T) > 0 && f.T[0] == 0 {
			return false
		} else {
			f.T = append([]uint16{1}, f.T...)
		}
	case wm.GW:
		switch f.U {
		case 1, 2:
			f.B = flip(f.B)
		case 3:
			if len(f.N) > 0 {
				f.N[0][0] ^= 0x01
			} else {
				f.N = wm.Name{{'x'}}
			}
		default:
			return false
		}
	case wm.HIPHdr:
		f.U ^= 1
	case wm.APLs:
		if len(f.APL) > 0 {
			f.APL[0].Neg = !f.APL[0].Neg
		} else {
			f.APL = []wm.APLItem{{Family: 1, Prefix: 8, Afd: []byte{10}}}
		}
	case wm.Params:
		for j, o := range f.Opts {
			if (o.Code == 3 || o.Code == 4 || o.Code == 5 || o.Code == 7 || o.Code >= 9) && len(o.Data) > 0 {
				d := append([]byte(nil), o.Data...)
				d[len(d)-1] ^= 0x01
				f.Opts[j].Data = d
				return true
			}
		}
		if n := len(f.Opts); n > 0 && f.Opts[n-1].Code == 65000 {
			f.Opts = f.Opts[:n-1]
		} else if n > 0 && f.Opts[n-1].Code > 65000 {
			return false
		} else {
			f.Opts = append(f.Opts, wm.Option{Code: 65000, Data: []byte{1}})
		}
	default:
		return false
	}
	return true
}

func invertCase(n wm.Name) wm.Name {
	o := n.Clone()
	for _, l := range o {
		for j, c := range l {
			if c >= 'a' && c <= 'z' || c >= 'A' && c <= 'Z' {
				l[j] = c ^ 0x20
			}
		}
	}
	return o
}

func hasLetter(n wm.Name) bool {
	for _, l := range n {
		for _, c := range l {
			if c >= 'a' && c <= 'z' || c >= 'A' && c <= 'Z' {
				return true
			}
		}
	}
	return false
}

func hasUpper(n wm.Name) bool {
	for _, l := range n {
		for _, c := range l {
			if c >= 'A' && c <= 'Z' {
				return true
			}
		}
	}
	return false
}

func typeName(t uint16) string {
	if s, ok := dns.TypeToString[t]; ok {
		return s
	}
	return fmt.Sprintf("TYPE%d", t)
}

// valid reports whether the case is inside the domain.
func (c sigCase) valid() bool {
	if len(c.Set) == 0 || len(c.Set) > 8 {
		return false
	}
	o := c.Set[0]
	for _, r := range c.Set {
		if r.Type != o.Type || r.Class != o.Class || !equalFold(r.Name, o.Name) || r.NoRdata {
			return false
		}
	}
	if !o.Name.Valid() || !hasSuffix(o.Name, c.Signer) || !equalFold(c.Signer, c.SignerAs) || !equalFold(c.Signer, c.KeyOwner) {
		return false
	}
	if c.KeyFlags&0x0100 == 0 || !signable(o.Type) {
		return false
	}
	return true
}

func checkSign(c sigCase) (err error) {
	if !c.valid() {
		return nil
	}
	priv, kerr := privFor(c.Alg, c.KeySlot, c.KeySeed)
	if kerr != nil {
		return nil
	}
	owner := c.Set[0].Name
	typ, class := c.Set[0].Type, c.Set[0].Class
	keyOct, _ := ref.KeyOctets(c.Alg, ref.PublicOf(priv))
	base := world{Set: cloneSet(c.Set), SigOwner: owner.Clone(), SigClass: class, KeyOwner: c.KeyOwner.Clone(), KeyClass: class,
		KeyFlags: c.KeyFlags, KeyProto: 3, KeyAlg: c.Alg, KeyOctets: keyOct, Spell: c.Spell}
	// a key tag of 0 is a tag like any other (RFC 4034 appendix B: one key in 65536 has it)
	tag := ref.KeyTag(base.keyRdata())
	mixed := false
	for _, r := range c.Set {
		mixed = mixed || !r.Name.Equal(owner)
	}
	// precondition (established by C01): the library re-packs the decoded records to the same octets
	libSet, lerr := base.libSet()
	if lerr != nil {
		return nil
	}
	for i, rr := range libSet {
		want, _ := wm.EncodeRR(c.Set[i])
		buf := make([]byte, len(want)+64)
		off, perr := dns.PackRR(rr, buf, 0, nil, false)
		if perr != nil || !bytes.Equal(buf[:off], want) {
			pbt.Class("skipped:repack-differs(C01)")
			return nil
		}
	}
	names, wild := false, isWild(owner)
	distinct := map[string]bool{}
	for _, r := range c.Set {
		names = names || hasNames(r)
		distinct[string(canonRdata(r))] = true
	}
	classes := []string{fmt.Sprintf("alg=%d", c.Alg), "type=" + typeName(typ), fmt.Sprintf("records=%d", len(c.Set)), fmt.Sprintf("distinct=%d", len(distinct)),
		fmt.Sprintf("wildcard=%v", wild), fmt.Sprintf("rdata-names=%v", names), fmt.Sprintf("lowertype=%v", lowerTypes[typ]), fmt.Sprintf("rootzone=%v", len(c.Signer) == 0),
		fmt.Sprintf("origttl-explicit=%v", c.OrigTTL != 0), fmt.Sprintf("rdata-embeds-another-record=%v", c.EmbeddedImage),
		fmt.Sprintf("keytag-zero=%v", tag == 0), fmt.Sprintf("owner-case-differs-between-records=%v", mixed), fmt.Sprintf("letters-as-ddd=%v", c.Spell.any()),
		fmt.Sprintf("keytag-fold-carries=%v", tagFoldCarries(base.keyRdata())), fmt.Sprintf("first-label-starts-with-star-without-being-the-wildcard=%v", c.StarLabel)}
	{
		// round 9: the backslash octet followed by octets that make the pair read like an escape
		look, code := hasLookalike(owner) || hasLookalike(c.SignerAs), hasBackslashLetterCode(owner) || hasBackslashLetterCode(c.SignerAs)
		for _, r := range c.Set {
			x := cloneRec(r)
			mapNames(&x, func(n wm.Name) wm.Name {
				look, code = look || hasLookalike(n), code || hasBackslashLetterCode(n)
				return n
			})
		}
		classes = append(classes, fmt.Sprintf("octets-that-read-like-an-escape=%v", look), fmt.Sprintf("backslash-octet-then-digits-of-a-letter-code=%v", code))
	}
	if c.Spell.any() {
		classes = append(classes, fmt.Sprintf("spelling-style=%d", c.Spell.Style))
		up := spelledLetters(owner, c.Spell.Owner, true) || spelledLetters(c.SignerAs, c.Spell.Signer, true)
		for _, r := range c.Set {
			if lowerTypes[typ] {
				x := cloneRec(r)
				mapNames(&x, func(n wm.Name) wm.Name { up = up || spelledLetters(n, c.Spell.Rdata, true); return n })
			}
		}
		classes = append(classes, fmt.Sprintf("upper-case-letter-as-ddd-in-signed-data=%v", up))
	}
	if rk, ok := priv.(*rsa.PrivateKey); ok {
		classes = append(classes, fmt.Sprintf("rsa-modulus-octets=%d", rk.Size()), fmt.Sprintf("rsa-exponent-octets=%d", (bits.Len(uint(rk.E))+7)/8))
	}
	w0, _ := wm.EncodeRR(c.Set[0])
	defer func() {
		pbt.Note(append([]byte(fmt.Sprintf("%d|%d|%x|%d|%d|%d|%d|%v|", c.Alg, c.KeySlot, c.KeySeed, len(c.Set), c.OrigTTL, c.Incep, c.Expir, c.Spell)), w0...),
			len(c.Set) >= 2 || names || wild, classes...)
	}()

	// the signer handed to Sign: deterministic; for ECDSA optionally with a chosen nonce, so that r and /
	// or s of the (valid) signature has two leading zero octets - about one random signature in 32768
	var signer crypto.Signer = ref.DetSigner{Key: priv}
	if ek, ok := priv.(*ecdsa.PrivateKey); ok && (c.ShortR > 0 || c.ShortS) {
		nonce := ref.ShortXNonce(c.Alg, c.ShortR-1)
		if c.ShortR == 0 {
			nonce = nil
			if nk, e := ref.ECDSAKeyFromSeed(c.Alg, append([]byte("nonce"), c.KeySeed...)); e == nil {
				nonce = nk.D
			}
		}
		if nonce != nil {
			if plan, e := ref.NewNoncePlan(ek, nonce); e == nil {
				signer = ref.NonceSigner{Key: ek, K: nonce}
				if c.ShortR > 0 {
					classes = append(classes, "ecdsa-r-with-2-leading-zero-octets")
				}
				if c.ShortS {
					ttl, labels := c.OrigTTL, len(owner)
					if ttl == 0 {
						ttl = c.Set[0].TTL
					}
					if wild {
						labels--
					}
					f := sigFields{TypeCovered: typ, Alg: c.Alg, Labels: uint8(labels), OrigTTL: ttl, Expiration: c.Expir, Inception: c.Incep, KeyTag: tag, Signer: c.SignerAs}
					if data, e := signedData(c.Set, f); e == nil {
						hf := crypto.SHA256
						if c.Alg == ref.AlgECDSAP384 {
							hf = crypto.SHA384
						}
						found := false
						for j := uint32(0); j < 1<<16 && !found; j++ {
							binary.BigEndian.PutUint32(data[12:], c.Incep+j) // type covered 2, alg 1, labels 1, original TTL 4, expiration 4, then inception
							h := hf.New()
							h.Write(data)
							if plan.LeadingZeroOctets(plan.S(h.Sum(nil))) >= 2 {
								found = true
								c.Incep += j
							}
						}
						classes = append(classes, fmt.Sprintf("ecdsa-s-with-2-leading-zero-octets-found=%v", found))
					}
				}
			}
		}
	}

	// (1) the library signs
	sig := &dns.RRSIG{Inception: c.Incep, Expiration: c.Expir, KeyTag: tag, SignerName: c.Spell.name(c.SignerAs, c.Spell.Signer), Algorithm: c.Alg, OrigTtl: c.OrigTTL}
	if serr := sig.Sign(ref.RandCheckedSigner{Inner: signer}, libSet); serr != nil { // the signer insists on a usable entropy source
		return pbt.Errf("RRSIG.Sign failed: %v (owner %s type %s alg %d key tag %d, %d records)", serr, libSet[0].Header().Name, typeName(typ), c.Alg, tag, len(c.Set))
	}
	raw, derr := base64.StdEncoding.DecodeString(sig.Signature)
	if derr != nil {
		return pbt.Errf("Sign produced a signature that is not base64: %q", sig.Signature)
	}
	wantTTL := c.OrigTTL
	if wantTTL == 0 {
		wantTTL = c.Set[0].TTL
	}
	wantLabels := len(owner)
	if wild {
		wantLabels--
	}
	if sig.TypeCovered != typ || sig.Hdr.Class != class || sig.OrigTtl != wantTTL || sig.Algorithm != c.Alg || sig.KeyTag != tag ||
		sig.Inception != c.Incep || sig.Expiration != c.Expir {
		return pbt.Errf("Sign filled the RRSIG with type %d class %d origttl %d alg %d tag %d times %d/%d; want %d %d %d %d %d %d/%d",
			sig.TypeCovered, sig.Hdr.Class, sig.OrigTtl, sig.Algorithm, sig.KeyTag, sig.Inception, sig.Expiration, typ, class, wantTTL, c.Alg, tag, c.Incep, c.Expir)
	}
	if int(sig.Labels) != wantLabels {
		// DESIGN: the value Sign puts into Labels for owners like "*abc." is not part of the statement;
		// the signature below is judged with the Labels value that Sign actually used
		classes = append(classes, "labels-differ-from-rfc(not asserted)")
	}
	signed := base
	signed.F = sigFields{TypeCovered: sig.TypeCovered, Alg: sig.Algorithm, Labels: sig.Labels, OrigTTL: sig.OrigTtl, Expiration: sig.Expiration,
		Inception: sig.Inception, KeyTag: sig.KeyTag, Signer: c.SignerAs.Clone()}
	signed.SigTTL = sig.OrigTtl
	signed.Signature = raw
	if rerr := signed.refVerify(); rerr != nil {
		return pbt.Errf("the reference rejects the signature made by RRSIG.Sign: %v (owner %s as handed to Sign %s, signer %s, type %s alg %d labels %d origttl %d, %d records, %d distinct)",
			rerr, wm.EscName(owner), libSet[0].Header().Name, sig.SignerName, typeName(typ), c.Alg, sig.Labels, sig.OrigTtl, len(c.Set), len(distinct))
	}
	if verr := sig.Verify(signed.libKey(), libSet); verr != nil {
		var on []string
		for _, rr := range libSet {
			on = append(on, rr.Header().Name)
		}
		return pbt.Errf("RRSIG.Verify of the signature just made by Sign failed: %v (owners as handed over %q, signer %s, key owner %s, key tag %d, type %s alg %d)",
			verr, on, sig.SignerName, signed.libKey().Hdr.Name, tag, typeName(typ), c.Alg)
	}

	// round 9 (remark 1 of the breakers): "any change to ... owner ... makes it fail", the one exemption
	// being a "wildcard expansion of the owner consistent with the Labels field". An owner whose first
	// label merely starts with "*" is not a wildcard name (RFC 4592 2.1.1: the leftmost label IS "*"),
	// so nothing is an expansion of it: the RRSIG that Sign made for it must not verify for the same
	// records under another owner. It does when Sign leaves that label out of the Labels count (RFC
	// 4034 3.1.3 excludes only the root and the wildcard label): the signed octets then name
	// "*.<rightmost Labels labels>" and the owner handed to Sign occurs nowhere in them.
	if c.StarLabel && !wild && int(sig.Labels) < len(owner) && int(sig.Labels) >= len(c.Signer) {
		other := append(wm.Name{[]byte("zz")}, owner[len(owner)-int(sig.Labels):].Clone()...)
		if other.Valid() && !equalFold(other, owner) {
			v := signed.clone()
			for i := range v.Set {
				v.Set[i].Name = other.Clone()
			}
			v.SigOwner = other.Clone()
			if v.libVerify() == nil {
				return pbt.Errf("the RRSIG that Sign made for the RRset of %s (%d labels, not a wildcard name: its first label is %q) carries Labels %d and verifies, unchanged but for its owner field, for the same records owned by %s - the signed octets name the wildcard *.%s, not the owner (type %s alg %d)",
					wm.EscName(owner), len(owner), owner[0], sig.Labels, wm.EscName(other), wm.EscName(owner[len(owner)-int(sig.Labels):]), typeName(typ), c.Alg)
			}
		}
	}

	// a signer that fails: Sign must say so - an RRSIG that Sign reports as made has to verify
	{
		fs := &dns.RRSIG{Inception: c.Incep, Expiration: c.Expir, KeyTag: tag, SignerName: c.Spell.name(c.SignerAs, c.Spell.Signer), Algorithm: c.Alg, OrigTtl: c.OrigTTL}
		if ferr := fs.Sign(ref.FailingSigner{Pub: ref.PublicOf(priv)}, libSet); ferr == nil {
			if verr := fs.Verify(signed.libKey(), libSet); verr != nil {
				return pbt.Errf("RRSIG.Sign reported success although the crypto.Signer returned an error; the RRSIG it left (signature %q) does not verify: %v", fs.Signature, verr)
			}
		}
	}

	// (2) the reference signs (RFC Labels value), the library verifies
	refw := base.clone()
	refw.F = sigFields{TypeCovered: typ, Alg: c.Alg, Labels: uint8(wantLabels), OrigTTL: wantTTL, Expiration: c.Expir, Inception: c.Incep, KeyTag: tag, Signer: c.SignerAs.Clone()}
	refw.SigTTL = wantTTL
	data, serr := signedData(refw.Set, refw.F)
	if serr != nil {
		return nil
	}
	if refw.Signature, serr = ref.SignSig(c.Alg, priv, data, nil); serr != nil {
		return nil
	}
	if rerr := refw.refVerify(); rerr != nil {
		return nil // the reference disagrees with itself: never expected; do not blame the library
	}
	if verr := refw.libVerify(); verr != nil {
		return pbt.Errf("RRSIG.Verify rejects a signature made by the reference over the RFC 4034 canonical form: %v (owner %s type %s alg %d labels %d origttl %d, %d records, %d distinct)",
			verr, wm.EscName(owner), typeName(typ), c.Alg, wantLabels, wantTTL, len(c.Set), len(distinct))
	}

	// (3) invariances: each variant must still verify (library), and the reference agrees it is valid
	type variant struct {
		name string
		w    world
	}
	var inv []variant
	mixedBases := []namedWorld{{"lib-signed", signed}} // verifying worlds from which the mixed-owner sets of round 8 are derived
	for _, b := range []struct {
		tag string
		w   world
	}{{"lib-signed", signed}, {"ref-signed", refw}} {
		n := len(b.w.Set)
		if n >= 2 {
			v := b.w.clone()
			for i := range v.Set { // reversed, then rotated by a drawn amount
				v.Set[i] = cloneRec(b.w.Set[(n-1-i+c.Dup)%n])
			}
			inv = append(inv, variant{b.tag + ": records reordered", v})
		}
		v := b.w.clone()
		v.Set = append(v.Set, cloneRec(v.Set[((c.Dup%n)+n)%n]))
		inv = append(inv, variant{b.tag + ": a record repeated", v})
		v = b.w.clone()
		for i := range v.Set {
			if len(c.TTLs) > 0 {
				v.Set[i].TTL = c.TTLs[i%len(c.TTLs)]
			} else {
				v.Set[i].TTL ^= 0xffff
			}
		}
		inv = append(inv, variant{b.tag + ": current TTLs changed", v})
		if hasLetter(owner) {
			if c.MixedOwner && n >= 2 && c.Spell.Owner == 0 {
				v = b.w.clone()
				k := ((c.Dup % n) + n) % n
				v.Set[k].Name = invertCase(v.Set[k].Name)
				inv = append(inv, variant{b.tag + ": owner letter case inverted in one record of the RRset", v})
			}
			v = b.w.clone()
			for i := range v.Set {
				v.Set[i].Name = invertCase(v.Set[i].Name)
			}
			inv = append(inv, variant{b.tag + ": owner letter case inverted in the RRset", v})
			v = b.w.clone()
			v.SigOwner = invertCase(v.SigOwner)
			inv = append(inv, variant{b.tag + ": owner letter case inverted in the RRSIG", v})
		}
		if hasLetter(c.Signer) {
			v = b.w.clone()
			v.KeyOwner = invertCase(v.KeyOwner)
			inv = append(inv, variant{b.tag + ": key owner letter case inverted", v})
		}
		if lowerTypes[typ] && names && !c.NoCaseInv {
			v = b.w.clone()
			changed := false
			for i := range v.Set {
				mapNames(&v.Set[i], func(x wm.Name) wm.Name {
					if hasLetter(x) {
						changed = true
					}
					return invertCase(x)
				})
			}
			if changed {
				inv = append(inv, variant{b.tag + ": letter case of RDATA names inverted (RFC 4034 6.2 type)", v})
			}
		}
		// the labels in front of the rightmost Labels ones replaced (for "*.zone" signed with the RFC
		// value: the "*"; for an owner like "*a.zone", which Sign takes for a wildcard too, that label:
		// the expansion is judged against the Labels field that is in the RRSIG)
		// (the labels that stay must still contain the signer name - the precondition of all cases; a zone
		// apex like "*0.zone." signed by Sign as if it were a wildcard has no such expansion)
		if drop := len(owner) - int(b.w.F.Labels); drop > 0 && len(c.Expansion) > 0 && int(b.w.F.Labels) >= len(c.Signer) {
			exp := append(wm.Name{}, c.Expansion...)
			exp = append(exp, owner[drop:].Clone()...)
			if exp.Valid() && !isWild(exp) {
				v = b.w.clone()
				for i := range v.Set {
					v.Set[i].Name = exp.Clone()
				}
				v.SigOwner = exp.Clone()
				inv = append(inv, variant{b.tag + ": wildcard owner replaced by an expansion", v})
				mixedBases = append(mixedBases, namedWorld{b.tag + ", owner replaced by an expansion", v})
				if !wild {
					pbt.Class("expansion-of-an-owner-that-only-Sign-takes-for-a-wildcard")
				}
			}
		}
	}
	// the owner of the case itself presented as the expansion of a wildcard further up: the reference
	// signs with Labels = k below the owner's label count (the RRset of "*.<rightmost k labels>");
	// "wildcard expansion of the owner consistent with the Labels field"
	if len(owner) > 0 {
		d := base.clone()
		d.F = refw.F
		d.F.Signer = refw.F.Signer.Clone()
		d.F.Labels = uint8(len(owner) - 1 - c.Dup%len(owner))
		d.SigTTL = wantTTL
		if data, e := signedData(d.Set, d.F); e == nil {
			if s, e := ref.SignSig(c.Alg, priv, data, nil); e == nil {
				d.Signature = s
				inv = append(inv, variant{"ref-signed for the wildcard some labels up (Labels below the owner's label count), presented under this owner", d})
				mixedBases = append(mixedBases, namedWorld{"ref-signed for the wildcard some labels up", d})
				pbt.Class(fmt.Sprintf("labels-below-owner-by=%d", len(owner)-int(d.F.Labels)))
			}
		}
	}
	for _, v := range inv {
		if rerr := v.w.refVerify(); rerr != nil {
			return pbt.Errf("harness: the reference rejects the invariance variant %q: %v", v.name, rerr)
		}
		if verr := v.w.libVerify(); verr != nil {
			vs, _ := v.w.libSet()
			var on []string
			for _, rr := range vs {
				on = append(on, rr.Header().Name)
			}
			return pbt.Errf("RRSIG.Verify fails after %q: %v (owners as handed over %q, RRSIG owner %s signer %s, key owner %s, type %s alg %d labels %d)", v.name, verr, on,
				v.w.libSig().Hdr.Name, v.w.libSig().SignerName, v.w.libKey().Hdr.Name, typeName(typ), c.Alg, v.w.F.Labels)
		}
		pbt.Class("invariance")
	}

	// (4) only-if: enumerated alterations of the library-signed world; an accepted alteration is a
	// violation unless the reference accepts it too
	var alts []variant
	add := func(name string, f func(w *world) bool) {
		v := signed.clone()
		if f(&v) {
			alts = append(alts, variant{name, v})
		}
	}
	layout, _ := wm.LayoutOf(typ)
	for i := range c.Set {
		for j := range c.Set[i].Fields {
			if j >= len(layout) {
				break
			}
			i, j := i, j
			add("a record field changed", func(w *world) bool { return changeField(&w.Set[i], j, layout[j]) })
		}
	}
	if len(owner) > 0 {
		add("owner changed in the RRset only", func(w *world) bool {
			for i := range w.Set {
				w.Set[i].Name[len(w.Set[i].Name)-1][0] ^= 0x01
			}
			return true
		})
		add("owner changed in RRset and RRSIG", func(w *world) bool {
			for i := range w.Set {
				w.Set[i].Name[0][0] ^= 0x01
			}
			w.SigOwner[0][0] ^= 0x01
			return true
		})
		add("owner gets one more label (RRset and RRSIG)", func(w *world) bool {
			n := append(wm.Name{[]byte("x")}, w.SigOwner...)
			if !n.Valid() {
				return false
			}
			for i := range w.Set {
				w.Set[i].Name = n.Clone()
			}
			w.SigOwner = n
			return true
		})
	}
	otherType := uint16(65001)
	add("RRset type changed (RRSIG unchanged)", func(w *world) bool {
		for i := range w.Set {
			rd := wm.EncodeRdata(w.Set[i])
			w.Set[i].Type = otherType
			w.Set[i].Fields = []wm.Field{{K: wm.Rest, B: rd}}
		}
		return true
	})
	add("RRset type and type covered changed", func(w *world) bool {
		for i := range w.Set {
			rd := wm.EncodeRdata(w.Set[i])
			w.Set[i].Type = otherType
			w.Set[i].Fields = []wm.Field{{K: wm.Rest, B: rd}}
		}
		w.F.TypeCovered = otherType
		return true
	})
	add("type covered changed", func(w *world) bool { w.F.TypeCovered ^= 1; return true })
	add("RRset class changed (RRSIG unchanged)", func(w *world) bool {
		for i := range w.Set {
			w.Set[i].Class ^= 2
		}
		return true
	})
	add("class changed in RRset, RRSIG and key", func(w *world) bool {
		for i := range w.Set {
			w.Set[i].Class ^= 2
		}
		w.SigClass ^= 2
		w.KeyClass ^= 2
		return true
	})
	add("RRSIG class changed", func(w *world) bool { w.SigClass ^= 2; return true })
	add("signer name changed (RRSIG only)", func(w *world) bool {
		w.F.Signer = append(wm.Name{[]byte("x")}, w.F.Signer...)
		return w.F.Signer.Valid()
	})
	add("signer name changed in RRSIG and key owner", func(w *world) bool {
		if len(w.F.Signer) == 0 {
			return false
		}
		w.F.Signer[0][0] ^= 0x01
		w.KeyOwner = w.F.Signer.Clone()
		return true
	})
	add("key tag +1", func(w *world) bool { w.F.KeyTag++; return true })
	add("labels +1", func(w *world) bool { w.F.Labels++; return true })
	add("labels -1", func(w *world) bool {
		if w.F.Labels == 0 {
			return false
		}
		w.F.Labels--
		return true
	})
	add("original TTL +1", func(w *world) bool { w.F.OrigTTL++; return true })
	add("original TTL := 0", func(w *world) bool { w.F.OrigTTL = 0; return signed.F.OrigTTL != 0 })
	add("inception +1", func(w *world) bool { w.F.Inception++; return true })
	add("expiration -1", func(w *world) bool { w.F.Expiration--; return true })
	add("inception and expiration swapped", func(w *world) bool {
		w.F.Inception, w.F.Expiration = w.F.Expiration, w.F.Inception
		return w.F.Inception != w.F.Expiration
	})
	for _, a := range algs {
		if a != c.Alg {
			a := a
			add(fmt.Sprintf("RRSIG algorithm := %d", a), func(w *world) bool { w.F.Alg = a; return true })
			add(fmt.Sprintf("RRSIG and key algorithm := %d", a), func(w *world) bool { w.F.Alg, w.KeyAlg = a, a; return true })
			break
		}
	}
	// the two names that neither signature nor key tag covers - the DNSKEY owner (compared with the
	// signer) and the RRSIG's own owner (compared with the RRset's) - replaced by names that are equal
	// only under Unicode case folding of the text: KELVIN SIGN (E2 84 AA) for k/K, LATIN SMALL LONG S
	// (C5 BF) for s/S, another octet >= 0x80 (both invalid UTF-8), and the "other case" of the
	// non-letters @ [ \ ] ^ ` { | } ~. DNS names compare octet by octet with ASCII letters folded only.
	partner := func(n wm.Name) (wm.Name, string) {
		for li, l := range n {
			for bi, b := range l {
				var rep []byte
				kind := ""
				switch {
				case b == 'k' || b == 'K':
					rep, kind = []byte{0xE2, 0x84, 0xAA}, "KELVIN SIGN for k"
				case b == 's' || b == 'S':
					rep, kind = []byte{0xC5, 0xBF}, "LONG S for s"
				case b >= 0x80:
					rep, kind = []byte{b ^ 0x11 | 0x80}, "another octet >= 0x80"
				case b == '@' || b == '`' || (b >= '[' && b <= '^') || (b >= '{' && b <= '~'):
					rep, kind = []byte{b ^ 0x20}, "near-case non-letter"
				default:
					continue
				}
				o := n.Clone()
				o[li] = append(append(append([]byte(nil), l[:bi]...), rep...), l[bi+1:]...)
				if o.Valid() && !equalFold(o, n) {
					return o, kind
				}
			}
		}
		return nil, ""
	}
	if p, kind := partner(signed.KeyOwner); p != nil {
		add("DNSKEY owner with "+kind+" (names spelled raw)", func(w *world) bool {
			w.KeyOwner = p
			t1, t2 := rawEsc(p), rawEsc(w.F.Signer)
			w.KeyOwnerText, w.SignerText = &t1, &t2
			return true
		})
	}
	if p, kind := partner(signed.SigOwner); p != nil {
		add("RRSIG owner with "+kind+" (names spelled raw), RRset unchanged", func(w *world) bool {
			w.SigOwner = p
			t1 := rawEsc(p)
			w.SigOwnerText = &t1
			return true
		})
	}
	// the key
	retag := func(w *world) { w.F.KeyTag = ref.KeyTag(w.keyRdata()) }
	signAs := func(w *world) bool { // a signature with the scheme of the RRSIG's algorithm number over the world's own fields
		d, e := signedData(w.Set, w.F)
		if e != nil {
			return false
		}
		s, e := ref.SignSig(w.F.Alg, priv, d, nil)
		if e != nil {
			return false
		}
		w.Signature = s
		return true
	}
	// round 9: another key tag in the RRSIG, with the signature made again by the holder of the key so
	// that nothing but "the key's tag matches the RRSIG" stands in the way: the neighbours of the tag
	// and the values that other ways of finishing the appendix B sum give (carries folded in until none
	// is left - differs from the tag exactly in the carrying case; carries dropped)
	for _, kt := range []struct {
		name string
		tag  uint16
	}{
		{"key tag +1 (signature made to fit)", tag + 1},
		{"key tag -1 (signature made to fit)", tag - 1},
		{"key tag := the sum with the carries folded in until none is left (signature made to fit)", endAroundTag(signed.keyRdata())},
		{"key tag := the low 16 bits of the sum, carries dropped (signature made to fit)", uint16(keyTagSum(signed.keyRdata()))},
	} {
		if kt := kt; kt.tag != tag {
			add(kt.name, func(w *world) bool { w.F.KeyTag = kt.tag; return signAs(w) })
		}
	}
	// sibling algorithm numbers: same key material, another number in the DNSKEY or in the RRSIG, with
	// key tag and signature recomputed so that nothing but the number disagrees (RFC 4034 2.1.3 /
	// 3.1.2: the key's algorithm must be the RRSIG's - 5 and 7 share key format and hash, 8 / 10 the
	// key format, 13 / 14 nothing)
	for _, a := range algs {
		if a == c.Alg {
			continue
		}
		a := a
		add(fmt.Sprintf("DNSKEY re-labelled algorithm %d, same key octets (tag and signature made to fit)", a), func(w *world) bool {
			w.KeyAlg = a
			retag(w)
			return signAs(w)
		})
		add(fmt.Sprintf("RRSIG re-labelled algorithm %d and signed with that scheme by the same key (DNSKEY unchanged)", a), func(w *world) bool {
			w.F.Alg = a
			return signAs(w)
		})
	}
	if rk, ok := priv.(*rsa.PrivateKey); ok {
		// the exponent field of RFC 3110 written with junk in front that a 64-bit accumulator shifts
		// out: 01 00..00 | e (nine octets and more): not the key the signature was made with
		e := big.NewInt(int64(rk.E)).Bytes()
		for _, extra := range []int{0, 1, 7} {
			extra := extra
			add(fmt.Sprintf("RSA exponent written as 01 followed by %d zero octets and e (tag made to fit)", 8-len(e)+extra), func(w *world) bool {
				ex := append([]byte{1}, make([]byte, 8-len(e)+extra)...)
				ex = append(ex, e...)
				w.KeyOctets = append(append([]byte{byte(len(ex))}, ex...), rk.N.Bytes()...)
				retag(w)
				return signAs(w)
			})
		}
		add("RSA exponent length in the three-octet form (tag and signature made to fit)", func(w *world) bool {
			w.KeyOctets = append(append([]byte{0, 0, byte(len(e))}, e...), rk.N.Bytes()...)
			retag(w)
			return signAs(w)
		})
		add("RSA modulus with a leading zero octet (tag and signature made to fit)", func(w *world) bool {
			w.KeyOctets = append(append(append([]byte{byte(len(e))}, e...), 0), rk.N.Bytes()...)
			retag(w)
			return signAs(w)
		})
	}
	// text-level alterations of the base64 fields: every string that is not base64 (RFC 4648 section 4,
	// strict) of a valid signature / of the key must be refused
	sigB64 := base64.StdEncoding.EncodeToString(signed.Signature)
	keyB64 := base64.StdEncoding.EncodeToString(signed.KeyOctets)
	textVariants := func(b string) map[string]string {
		m := map[string]string{"with ! appended": b + "!", "with = appended": b + "=", "with a blank appended": b + " ", "with A appended": b + "A",
			"with AA== appended": b + "AA==", "with ==== appended": b + "====", "with a blank in the middle": b[:len(b)/2] + " " + b[len(b)/2:],
			"with a tab in front": "\t" + b, "with its last character removed": b[:max(len(b)-1, 0)]}
		if t := strings.TrimRight(b, "="); t != b {
			m["without its padding"] = t
		}
		if u := strings.NewReplacer("+", "-", "/", "_").Replace(b); u != b {
			m["in the URL-safe alphabet"] = u
		}
		return m
	}
	for name, txt := range textVariants(sigB64) {
		txt := txt
		add("signature text "+name, func(w *world) bool { w.SigText = &txt; return true })
	}
	for name, txt := range textVariants(keyB64) {
		txt := txt
		add("public key text "+name, func(w *world) bool { w.KeyText = &txt; return true })
		add("public key text "+name+" (tag made to fit the decodable part)", func(w *world) bool {
			w.KeyText = &txt
			// the tag a decoder that stops at the first bad character would compute
			if b, e := ref.StrictBase64(txt[:len(txt)/4*4]); e == nil {
				w.F.KeyTag = ref.KeyTag(ref.DNSKEYRdata(w.KeyFlags, w.KeyProto, w.KeyAlg, b))
				return signAs(w)
			}
			return false
		})
	}
	resign := func(w *world) bool { // the holder of the private key signs again for the altered key record
		d, e := signedData(w.Set, w.F)
		if e != nil {
			return false
		}
		s, e := ref.SignSig(w.F.Alg, priv, d, nil)
		if e != nil {
			return false
		}
		w.Signature = s
		return true
	}
	add("key without the ZONE flag (tag and signature made to fit)", func(w *world) bool { w.KeyFlags &^= 0x0100; retag(w); return resign(w) })
	add("key with protocol 2 (tag and signature made to fit)", func(w *world) bool { w.KeyProto = 2; retag(w); return resign(w) })
	add("key with protocol 0 (tag and signature made to fit)", func(w *world) bool { w.KeyProto = 0; retag(w); return resign(w) })
	add("key owner is another name", func(w *world) bool {
		w.KeyOwner = append(wm.Name{[]byte("k")}, w.KeyOwner...)
		return w.KeyOwner.Valid()
	})
	add("key class differs", func(w *world) bool { w.KeyClass ^= 2; return true })
	// round 10: "the key ... whose tag, algorithm, CLASS and name match the RRSIG". The class of the
	// DNSKEY is neither in the key tag nor in the signed data: with nothing else changed the signature
	// stays valid, and only the comparison of the two class fields can refuse the key. Every single-bit
	// change of the key's class and the assigned values (IN, CH, HS, NONE, ANY) and 0.
	{
		seen := map[uint16]bool{signed.KeyClass: true, signed.KeyClass ^ 2: true}
		var others []uint16
		for b := 0; b < 16; b++ {
			others = append(others, signed.KeyClass^1<<b)
		}
		for _, kc := range append(others, 0, 1, 3, 4, 254, 255) {
			if kc := kc; !seen[kc] {
				seen[kc] = true
				add(fmt.Sprintf("key of class %d instead of %d (one bit of the class changed, or IN / CH / HS / NONE / ANY / 0), everything else identical", kc, signed.KeyClass), func(w *world) bool { w.KeyClass = kc; return true })
			}
		}
	}
	add("key flags changed (SEP bit)", func(w *world) bool { w.KeyFlags ^= 1; return true })
	// key material of another length (the decoders of the fixed-size algorithms must look at it)
	add("key octets without the last one (tag made to fit)", func(w *world) bool {
		if len(w.KeyOctets) == 0 {
			return false
		}
		w.KeyOctets = w.KeyOctets[:len(w.KeyOctets)-1]
		retag(w)
		return true
	})
	add("key octets with one more octet (tag made to fit)", func(w *world) bool { w.KeyOctets = append(w.KeyOctets, 0x01); retag(w); return true })
	add("key octets doubled (tag made to fit)", func(w *world) bool { w.KeyOctets = append(w.KeyOctets, w.KeyOctets...); retag(w); return true })
	add("empty key (tag made to fit)", func(w *world) bool { w.KeyOctets = nil; retag(w); return true })
	add("another key of the same algorithm (tag made to fit)", func(w *world) bool {
		op, e := privFor(c.Alg, c.KeySlot+1, append([]byte{0x5a}, c.KeySeed...))
		if e != nil {
			return false
		}
		w.KeyOctets, _ = ref.KeyOctets(c.Alg, ref.PublicOf(op))
		retag(w)
		return true
	})
	// the RRset as a whole
	add("a record removed", func(w *world) bool {
		if len(distinct) < 2 {
			return false
		}
		first := string(canonRdata(w.Set[0]))
		var keep []wm.Rec
		for _, r := range w.Set {
			if string(canonRdata(r)) != first {
				keep = append(keep, r)
			}
		}
		w.Set = keep
		return true
	})
	add("a record added", func(w *world) bool {
		x := cloneRec(w.Set[0])
		for j := range x.Fields {
			if j < len(layout) && changeField(&x, j, layout[j]) {
				if !distinct[string(canonRdata(x))] {
					w.Set = append(w.Set, x)
					return true
				}
			}
		}
		return false
	})
	add("empty RRset", func(w *world) bool { w.Set = nil; return true })
	// the signature field
	add("signature without its last octet", func(w *world) bool { w.Signature = w.Signature[:len(w.Signature)-1]; return true })
	add("signature with a zero octet appended", func(w *world) bool { w.Signature = append(w.Signature, 0); return true })
	add("signature with a zero octet in front", func(w *world) bool { w.Signature = append([]byte{0}, w.Signature...); return true })
	add("empty signature", func(w *world) bool { w.Signature = nil; return true })
	if c.Pad && (c.Alg == ref.AlgECDSAP256 || c.Alg == ref.AlgECDSAP384) {
		add("ECDSA signature with a zero octet in front of r and of s", func(w *world) bool {
			h := len(w.Signature) / 2
			p := append([]byte{0}, w.Signature[:h]...)
			p = append(append(p, 0), w.Signature[h:]...)
			w.Signature = p
			return true
		})
	}
	// round 8: one record that does not belong to the RRset (other owner / class / type), in every
	// position, in the world Sign made and in the wildcard-expanded worlds
	mixedAlts := mixedSetAlterations(mixedBases, otherType, c.Dup, exhaustive())
	for _, m := range mixedAlts {
		alts = append(alts, variant{m.name, m.w})
	}
	classes = append(classes, fmt.Sprintf("mixed-owner-bases=%d", len(mixedBases)))
	for ai, a := range alts {
		verr := a.w.libVerify()
		pbt.Class("alteration")
		if ai >= len(alts)-len(mixedAlts) {
			pbt.Class("alteration:one-record-outside-the-rrset")
		}
		if verr != nil {
			continue
		}
		if rerr := a.w.refVerify(); rerr != nil {
			return pbt.Errf("RRSIG.Verify accepted the alteration %q (owner %s type %s alg %d, %d records; owners handed to Verify %q, RRSIG owner %s labels %d); reference: %v",
				a.name, wm.EscName(owner), typeName(typ), c.Alg, len(c.Set), ownersOf(a.w), wm.EscName(a.w.SigOwner), a.w.F.Labels, rerr)
		}
		pbt.Class("alteration-accepted-by-both:" + a.name)
	}

	// single-bit flips of the signature (all bits; sampled for P-384 in the quick tier)
	key := signed.libKey()
	var sbits []int
	if (c.Alg == ref.AlgECDSAP384 || len(raw) > 128) && !exhaustive() {
		for _, s := range c.SigSample {
			sbits = append(sbits, ((s%(len(raw)*8))+len(raw)*8)%(len(raw)*8))
		}
	} else {
		for b := 0; b < len(raw)*8; b++ {
			sbits = append(sbits, b)
		}
	}
	acc := parallelEach(len(sbits), func(i int) bool {
		x := append([]byte(nil), raw...)
		x[sbits[i]/8] ^= 1 << (sbits[i] % 8)
		s := *sig
		s.Signature = base64.StdEncoding.EncodeToString(x)
		return s.Verify(key, libSet) == nil
	})
	for i, a := range acc {
		if a {
			v := signed.clone()
			v.Signature[sbits[i]/8] ^= 1 << (sbits[i] % 8)
			if rerr := v.refVerify(); rerr != nil {
				return pbt.Errf("RRSIG.Verify accepted the signature with bit %d of octet %d flipped (alg %d); reference: %v", sbits[i]%8, sbits[i]/8, c.Alg, rerr)
			}
		}
		pbt.Class("signature-bit-flip")
	}
	// single-bit flips of the key octets: as they are (the key tag no longer fits) ...
	kacc := parallelEach(len(keyOct)*8, func(i int) bool {
		k := *key
		x := append([]byte(nil), keyOct...)
		x[i/8] ^= 1 << (i % 8)
		k.PublicKey = base64.StdEncoding.EncodeToString(x)
		return sig.Verify(&k, libSet) == nil
	})
	for i, a := range kacc {
		if a {
			v := signed.clone()
			v.KeyOctets[i/8] ^= 1 << (i % 8)
			if rerr := v.refVerify(); rerr != nil {
				return pbt.Errf("RRSIG.Verify accepted the key with bit %d of octet %d flipped; reference: %v", i%8, i/8, rerr)
			}
		}
		pbt.Class("key-bit-flip")
	}
	// ... and with the RRSIG's key tag made to fit the altered key (sampled positions)
	for _, s := range c.KeySample {
		i := ((s % (len(keyOct) * 8)) + len(keyOct)*8) % (len(keyOct) * 8)
		v := signed.clone()
		v.KeyOctets[i/8] ^= 1 << (i % 8)
		retag(&v)
		if v.libVerify() == nil {
			if rerr := v.refVerify(); rerr != nil {
				return pbt.Errf("RRSIG.Verify accepted the key with bit %d of octet %d flipped and the key tag adjusted; reference: %v", i%8, i/8, rerr)
			}
		}
		pbt.Class("key-bit-flip-retagged")
	}
	return nil
}

// ---------------------------------------------------------------------------------------------
// generator

// notSignable: meta types and RRSIG itself never form a signed RRset.
var notSignable = map[uint16]bool{wm.TOPT: true, wm.TTSIG: true, wm.TTKEY: true, wm.TANY: true, wm.TNXNAME: true, wm.TRRSIG: true}

func signable(t uint16) bool { return !notSignable[t] }

var (
	listedTypes   []uint16 // RFC 4034 6.2 types (names folded)
	unlistedNames = []uint16{wm.TNSEC, wm.THIP, wm.TTALINK, wm.TLP, wm.TNSAPPTR, wm.TIPSECKEY, wm.TAMTRELAY, wm.TSVCB, wm.THTTPS}
	otherTypes    []uint16
)

func init() {
	for _, t := range gen.AllTypes {
		switch {
		case !signable(t):
		case lowerTypes[t]:
			listedTypes = append(listedTypes, t)
		default:
			otherTypes = append(otherTypes, t)
		}
	}
}

func genSign(t *rapid.T) sigCase {
	c := sigCase{}
	no := gen.NameOpts{MaxLabs: 3, MaxLabel: 8, Plain: rapid.IntRange(0, 2).Draw(t, "plain") > 0}
	zone := gen.Name(t, no)
	if len(zone) == 0 && rapid.IntRange(0, 2).Draw(t, "rootzone") > 0 {
		zone = wm.Name{gen.Label(t, no)}
	}
	if len(zone) > 0 && rapid.IntRange(0, 2).Draw(t, "foldbait") == 0 {
		// letters and octets whose text has case partners outside ASCII, or a "case" that is none
		zone[0] = append([]byte{rapid.SampledFrom([]byte{'k', 'K', 's', 'S', 0xE9, 0xFF, '[', '@', '~'}).Draw(t, "bait")}, zone[0]...)
		if len(zone[0]) > 63 {
			zone[0] = zone[0][:63]
		}
	}
	sub := gen.Name(t, gen.NameOpts{MaxLabs: 3, MaxLabel: 8, Plain: no.Plain})
	if len(sub) > 0 && rapid.IntRange(0, 3).Draw(t, "foldbait2") == 0 {
		sub[0] = append([]byte{rapid.SampledFrom([]byte{'k', 's', 'S', 0xC9, '{'}).Draw(t, "bait2")}, sub[0]...)
		if len(sub[0]) > 63 {
			sub[0] = sub[0][:63]
		}
	}
	// round 9: label octets that read like an escape sequence (the backslash octet followed by digits,
	// by a letter, a dot, another backslash) in the zone (bit 0), in the owner below it (bit 1) and in
	// RDATA names (bit 2) - see escapeLookalike
	look := 0
	if rapid.IntRange(0, 3).Draw(t, "lookalike") == 0 {
		look = rapid.IntRange(1, 7).Draw(t, "looksites")
	}
	lookInto := func(t *rapid.T, n wm.Name, tag string) wm.Name {
		frag := escapeLookalike(t)
		if len(n) == 0 {
			return wm.Name{frag}
		}
		k := rapid.IntRange(0, len(n)-1).Draw(t, tag+"label")
		n[k] = withLookalike(n[k], frag, rapid.IntRange(0, 2).Draw(t, tag+"where"))
		return n
	}
	if look&1 != 0 && len(zone) > 0 {
		zone = lookInto(t, zone, "lookzone")
	}
	if look&2 != 0 {
		sub = lookInto(t, sub, "looksub")
	}
	wild := rapid.IntRange(0, 3).Draw(t, "wild") == 0
	if wild {
		if len(sub) > 0 && rapid.Bool().Draw(t, "wilddeep") {
			sub = append(wm.Name{[]byte("*")}, sub[1:]...)
		} else {
			sub = wm.Name{[]byte("*")}
		}
	}
	if !wild && len(sub) > 0 && sub[0][0] != '*' && rapid.IntRange(0, 15).Draw(t, "starlabel") == 0 {
		// a first label that merely starts with "*" ("*a.zone."): not a wildcard by RFC 4592, but Sign
		// gives it the Labels value of one; whatever value is in the RRSIG, expansions consistent with
		// it verify (round 8, remark 1)
		sub[0] = append([]byte("*"), sub[0]...)
		if len(sub[0]) > 63 {
			sub[0] = sub[0][:63]
		}
	}
	owner := append(sub.Clone(), zone.Clone()...)
	if !owner.Valid() {
		owner = zone.Clone()
		wild = false
	}
	if len(owner) == 1 && owner[0][0] == '*' && pbt.Known(findRootWild) {
		// the class of the finding: Sign / Verify work with Labels = 0 for a non-root owner. Sign gets
		// there for every single-label owner whose text starts with "*" ("*." itself, but also "*a."
		// or "*\.."), because it takes any such owner for a wildcard
		pbt.Excluded(findRootWild)
		owner = wm.Name{[]byte("w")}
		wild = false
	}
	if len(owner) > len(zone) && len(owner[0]) > 1 && owner[0][0] == '*' {
		// round 9: the class of finding rrsig-star-prefixed-label - an owner below the zone apex whose
		// first label starts with "*" without being the wildcard label
		if pbt.Known(findStarLabel) {
			pbt.Excluded(findStarLabel)
			owner[0][0] = 'x'
		} else {
			c.StarLabel = true
		}
	}
	c.Signer = zone
	c.SignerAs, c.KeyOwner = zone.Clone(), zone.Clone()
	if rapid.IntRange(0, 2).Draw(t, "signercase") == 0 {
		c.SignerAs = gen.FlipCase(t, zone)
	}
	if rapid.IntRange(0, 2).Draw(t, "keycase") == 0 {
		c.KeyOwner = gen.FlipCase(t, zone)
	}
	var typ uint16
	switch k := rapid.IntRange(0, 9).Draw(t, "typek"); {
	case k <= 4:
		typ = rapid.SampledFrom(listedTypes).Draw(t, "ltype")
	case k == 5:
		typ = rapid.SampledFrom(unlistedNames).Draw(t, "utype")
	case k == 6:
		typ = rapid.SampledFrom([]uint16{wm.TA, wm.TAAAA, wm.TTXT, wm.TDNSKEY, wm.TDS, wm.TNSEC3}).Draw(t, "ctype")
	case k == 7 && rapid.Bool().Draw(t, "unknown"):
		typ = rapid.SampledFrom([]uint16{11, 22, 38, 259, 1000, 65279, 65534}).Draw(t, "xtype")
	default:
		typ = rapid.SampledFrom(otherTypes).Draw(t, "otype")
	}
	class := rapid.SampledFrom([]uint16{1, 1, 1, 1, 3, 4, 254, 255, 0, 65535}).Draw(t, "class")
	// RDATA names: a small pool related to the owner, in mixed case
	pool := []wm.Name{owner.Clone(), zone.Clone(), gen.FlipCase(t, owner), append(wm.Name{[]byte("Mail")}, zone.Clone()...)}
	plainName := func(t *rapid.T) wm.Name {
		if rapid.Bool().Draw(t, "pooled") {
			n := pool[rapid.IntRange(0, len(pool)-1).Draw(t, "pn")]
			if n.Valid() {
				return gen.FlipCase(t, n)
			}
		}
		return gen.Name(t, gen.NameOpts{MaxLabs: 4, MaxLabel: 8, Plain: no.Plain})
	}
	ro := &gen.Opts{Level: gen.WireValid, MaxBlob: 24, NameGen: func(t *rapid.T) wm.Name {
		n := plainName(t)
		if look&4 != 0 && rapid.IntRange(0, 2).Draw(t, "lookrd") > 0 {
			if m := lookInto(t, n.Clone(), "lookrd"); m.Valid() {
				return m
			}
		}
		return n
	}}
	n := rapid.SampledFrom([]int{1, 1, 2, 2, 3, 4, 6}).Draw(t, "n")
	for i := 0; i < n; i++ {
		var r wm.Rec
		switch k := rapid.IntRange(0, 5).Draw(t, "reck"); {
		case i > 0 && k == 0: // exact duplicate
			r = cloneRec(c.Set[rapid.IntRange(0, i-1).Draw(t, "dupof")])
		case i > 0 && k == 1: // the same RDATA with the letter case of its names changed
			r = cloneRec(c.Set[rapid.IntRange(0, i-1).Draw(t, "caseof")])
			mapNames(&r, func(x wm.Name) wm.Name { return gen.FlipCase(t, x) })
		case i > 0 && k == 2: // differs from an earlier record in one field: adjacent in the canonical order
			r = cloneRec(c.Set[rapid.IntRange(0, i-1).Draw(t, "nearof")])
			if layout, _ := wm.LayoutOf(typ); len(layout) > 0 && len(r.Fields) == len(layout) {
				j := rapid.IntRange(0, len(layout)-1).Draw(t, "nearfield")
				changeField(&r, j, layout[j])
			}
		default:
			r = gen.RecOfType(t, typ, ro)
		}
		r.Name, r.Class = owner.Clone(), class
		r.TTL = rapid.OneOf(rapid.SampledFrom([]uint32{0, 1, 300, 3600, 1<<31 - 1, 1<<32 - 1}), rapid.Uint32()).Draw(t, "ttl")
		if typ == wm.TNXT && pbt.Known(findNXT) {
			c.NoCaseInv = true
			lowered := false
			mapNames(&r, func(x wm.Name) wm.Name {
				if hasUpper(x) {
					lowered = true
				}
				return x.Lower()
			})
			if lowered || i == 0 {
				pbt.Excluded(findNXT)
			}
		}
		c.Set = append(c.Set, r)
	}
	if rapid.IntRange(0, 11).Draw(t, "embedded") == 0 {
		// records with opaque RDATA one of which ends (or begins) with the complete canonical form of
		// another one - owner | type | class | original TTL | RDLENGTH | RDATA - and sorts right
		// before it: RFC 4034 6.3 removes records with *equal* RDATA, nothing else
		etyp := rapid.SampledFrom([]uint16{wm.TNULL, 65400, 65279, 11}).Draw(t, "etype")
		ottl := rapid.Uint32Range(1, 1<<32-1).Draw(t, "ettl")
		q := append([]byte{byte(rapid.IntRange(1, 255).Draw(t, "qfirst"))}, rapid.SliceOfN(rapid.Byte(), 0, 12).Draw(t, "q")...)
		image := wm.EncodeName(owner.Lower())
		image = append(image, byte(etyp>>8), byte(etyp), byte(class>>8), byte(class), byte(ottl>>24), byte(ottl>>16), byte(ottl>>8), byte(ottl), byte(len(q)>>8), byte(len(q)))
		image = append(image, q...)
		pfx := append([]byte{byte(rapid.IntRange(0, int(q[0])-1).Draw(t, "pfirst"))}, rapid.SliceOfN(rapid.Byte(), 0, 6).Draw(t, "p")...)
		mk := func(d []byte) wm.Rec {
			return wm.Rec{Name: owner.Clone(), Type: etyp, Class: class, TTL: rapid.Uint32().Draw(t, "ettl2"), Fields: []wm.Field{{K: wm.Rest, B: d}}}
		}
		set := []wm.Rec{mk(append(append([]byte(nil), pfx...), image...)), mk(q)}
		if rapid.Bool().Draw(t, "alsoprefix") {
			set = append(set, mk(append(append([]byte(nil), image...), pfx...)))
		}
		if rapid.Bool().Draw(t, "reorder") {
			set[0], set[1] = set[1], set[0]
		}
		c.Set, c.OrigTTL = set, ottl
		c.EmbeddedImage = true
	}
	c.Alg = rapid.SampledFrom(algs).Draw(t, "alg")
	c.KeySlot = rapid.IntRange(0, ref.RSAPoolSize()-1).Draw(t, "slot")
	c.KeySeed = rapid.SliceOfN(rapid.Byte(), 1, 40).Draw(t, "seed")
	c.KeyFlags = 0x0100 | rapid.SampledFrom([]uint16{0, 1, 1, 0x80, 0x81, 0xFE7F}).Draw(t, "kflags")
	if rapid.IntRange(0, 7).Draw(t, "kflagsany") == 0 {
		c.KeyFlags = 0x0100 | rapid.Uint16().Draw(t, "kf")
	}
	if rapid.Bool().Draw(t, "explicitttl") && !c.EmbeddedImage {
		c.OrigTTL = rapid.OneOf(rapid.SampledFrom([]uint32{1, 3600, 1<<32 - 1}), rapid.Uint32Range(1, 1<<32-1)).Draw(t, "origttl")
	}
	c.Incep = rapid.Uint32().Draw(t, "incep")
	c.Expir = rapid.Uint32().Draw(t, "expir")
	c.Dup = rapid.IntRange(0, 5).Draw(t, "dup")
	c.TTLs = rapid.SliceOfN(rapid.Uint32(), 1, 3).Draw(t, "ttls")
	if wild || len(owner) > 0 && owner[0][0] == '*' { // "*" and labels like "*a", which Sign takes for a wildcard too
		c.Expansion = gen.Name(t, gen.NameOpts{MaxLabs: 2, MaxLabel: 6, Plain: no.Plain})
		if len(c.Expansion) == 0 {
			c.Expansion = [][]byte{[]byte("Host")}
		}
		if string(c.Expansion[0]) == "*" {
			c.Expansion[0] = []byte("h")
		}
	}
	c.Pad = rapid.Bool().Draw(t, "pad")
	if c.Pad && (c.Alg == ref.AlgECDSAP256 || c.Alg == ref.AlgECDSAP384) && pbt.Known(findPadded) {
		pbt.Excluded(findPadded)
		c.Pad = false
	}
	if c.Alg == ref.AlgECDSAP256 || c.Alg == ref.AlgECDSAP384 {
		if rapid.IntRange(0, 3).Draw(t, "shortr") == 0 {
			c.ShortR = 1 + rapid.IntRange(0, ref.ShortXCount(c.Alg)-1).Draw(t, "shortrn")
		}
		c.ShortS = rapid.IntRange(0, 7).Draw(t, "shorts") == 0
	} else if c.Alg != ref.AlgEd25519 && rapid.IntRange(0, 7).Draw(t, "edgekey") == 0 {
		// RSA keys at the library's bounds: 512-octet modulus (4096 bits), 3072 and 2048 bits, public
		// exponents of one and of four octets
		c.KeySlot = ref.RSAEdgeBase + rapid.IntRange(0, ref.RSAEdgeSize()-1).Draw(t, "edgeslot")
	}
	c.SigSample = rapid.SliceOfN(rapid.IntRange(0, 1<<16), 96, 96).Draw(t, "sigsample")
	c.KeySample = rapid.SliceOfN(rapid.IntRange(0, 1<<16), 12, 12).Draw(t, "keysample")

	// round 7. (a) Letters written as \DDD escapes ("\065" is "A") in the names handed to the library:
	// the owner of the records, the owner of the RRSIG (Verify side; Sign copies it from the first
	// record), the signer name, the DNSKEY owner and the names in the RDATA, each with its own drawn
	// position mask - so the same name reaches Sign / Verify in different but equivalent spellings.
	if rapid.IntRange(0, 3).Draw(t, "ddd") == 0 {
		m := func(label string) uint64 {
			switch rapid.IntRange(0, 3).Draw(t, label+"k") {
			case 0:
				return 0
			case 1:
				return ^uint64(0) // every letter
			}
			return rapid.Uint64().Draw(t, label)
		}
		sp := spelling{Owner: m("dddowner"), SigOwner: m("dddsigowner"), Signer: m("dddsigner"), KeyOwner: m("dddkeyowner"), Rdata: m("dddrdata")}
		// round 10: the other ways to write the same octets. Half of the spelled cases keep the letters
		// as \DDD; a quarter write the selected letters with a backslash in front (`w\ww`), a quarter
		// write every selected octet, letter or not, as \DDD.
		switch rapid.IntRange(0, 3).Draw(t, "dddstyle") {
		case 2:
			sp.Style = styleBackslashLetter
		case 3:
			sp.Style = styleAnyDDD
		}
		if sp.Style != styleLetterDDD && pbt.Known(findTextCompare) {
			// the class of the finding: names that Verify compares with each other (owner of the records /
			// owner of the RRSIG / signer / owner of the key) spelled in these styles. RDATA names are not
			// compared with anything and stay spelled.
			if sp.Owner|sp.SigOwner|sp.Signer|sp.KeyOwner != 0 {
				pbt.Excluded(findTextCompare)
			}
			sp.Owner, sp.SigOwner, sp.Signer, sp.KeyOwner = 0, 0, 0, 0
		}
		if pbt.Known(findDDD) {
			// the class of the finding: a letter written as \DDD in a name that the library folds or
			// compares as text - owner, RRSIG owner, signer, key owner, RDATA names of the 6.2 types.
			// (Names in the RDATA of the other types enter the signed data as they are: still spelled.)
			if sp.Owner|sp.SigOwner|sp.Signer|sp.KeyOwner != 0 || sp.Rdata != 0 && lowerTypes[typ] {
				pbt.Excluded(findDDD)
			}
			sp.Owner, sp.SigOwner, sp.Signer, sp.KeyOwner = 0, 0, 0, 0
			if lowerTypes[typ] {
				sp.Rdata = 0
			}
		}
		c.Spell = sp
	}
	// (b) The records of one RRset spell the owner in different letter case (an RRset is defined by
	// the owner NAME; RFC 4343: names compare without regard to case). Not combined with an owner
	// spelled in \DDD: "\065." and "\097." in one set is class (a) and (b) at once.
	if len(c.Set) >= 2 && hasLetter(owner) && c.Spell.Owner == 0 && rapid.IntRange(0, 2).Draw(t, "mixedowner") == 0 {
		if pbt.Known(findMixedOwner) {
			pbt.Excluded(findMixedOwner)
		} else {
			c.MixedOwner = true
			for i := range c.Set {
				if rapid.Bool().Draw(t, "ownercase") {
					c.Set[i].Name = gen.FlipCase(t, c.Set[i].Name)
				}
			}
		}
	}
	// (c) A key whose tag is 0: the flags field is the first 16-bit word of the DNSKEY RDATA, so for
	// about half of the keys some flags value with the ZONE bit makes the RFC 4034 appendix B sum 0.
	if rapid.IntRange(0, 7).Draw(t, "tagzero") == 0 {
		if priv, err := privFor(c.Alg, c.KeySlot, c.KeySeed); err == nil {
			if oct, err := ref.KeyOctets(c.Alg, ref.PublicOf(priv)); err == nil {
				if f, ok := flagsForTagZero(c.Alg, oct); ok {
					if pbt.Known(findTag0) {
						pbt.Excluded(findTag0)
					} else {
						c.KeyFlags = f
					}
				}
			}
		}
	} else if rapid.IntRange(0, 6).Draw(t, "tagcarry") == 0 {
		// (d, round 9) A key for which the one folding step of the key tag computation overflows 16 bits
		// (RFC 4034 appendix B drops that carry): again steered through the flags word, see flagsForTagCarry.
		pick := rapid.IntRange(0, 1<<12).Draw(t, "tagcarrypick")
		if priv, err := privFor(c.Alg, c.KeySlot, c.KeySeed); err == nil {
			if oct, err := ref.KeyOctets(c.Alg, ref.PublicOf(priv)); err == nil {
				if f, ok := flagsForTagCarry(c.Alg, oct, pick); ok {
					c.KeyFlags = f
				}
			}
		}
	}
	return c
}

// flagsForTagZero looks for a flags value with the ZONE bit for which the DNSKEY (protocol 3) has key
// tag 0 (there is at most a handful of them per key, and the ZONE bit is set in about half).
func flagsForTagZero(alg uint8, keyOct []byte) (uint16, bool) {
	t0 := ref.KeyTag(ref.DNSKEYRdata(0x0100, 3, alg, keyOct))
	// the tag is (sum + carry) mod 2^16 and the flags enter the sum as they are: try the flags that
	// cancel t0, and their neighbours for the carry
	for d := 0; d < 4; d++ {
		for _, f := range []uint16{0x0100 - t0 + uint16(d), 0x0100 - t0 - uint16(d)} {
			if f&0x0100 != 0 && ref.KeyTag(ref.DNSKEYRdata(f, 3, alg, keyOct)) == 0 {
				return f, true
			}
		}
	}
	return 0, false
}

func init() {
	pbt.Register(pbt.Sub[sigCase]{Name: "sign-verify-alter", Weight: 1, Gen: genSign, Check: checkSign})
}

func init() {
	name := func(ls ...string) wm.Name {
		var n wm.Name
		for _, l := range ls {
			n = append(n, []byte(l))
		}
		return n
	}
	a := func(owner wm.Name, ip ...byte) wm.Rec {
		return wm.Rec{Name: owner, Type: wm.TA, Class: 1, TTL: 300, Fields: []wm.Field{{K: wm.IPv4, B: ip}}}
	}
	zone := name("example", "org")
	base := sigCase{Signer: zone, SignerAs: zone, KeyOwner: zone, Alg: ref.AlgEd25519, KeySeed: []byte{7}, KeyFlags: 257, Incep: 1000, Expir: 2000}
	// DESIGN §4 #10: wildcard directly under the root
	pbt.Probe(findRootWild, func() error {
		c := base
		c.Signer, c.SignerAs, c.KeyOwner = wm.Name{}, wm.Name{}, wm.Name{}
		c.Set = []wm.Rec{a(name("*"), 192, 0, 2, 1)}
		return checkSign(c)
	})
	// DESIGN §4 #9: NXT is in the RFC 4034 6.2 list, its next domain name is not folded
	pbt.Probe(findNXT, func() error {
		c := base
		owner := name("a", "example", "org")
		c.Set = []wm.Rec{{Name: owner, Type: wm.TNXT, Class: 1, TTL: 300, Fields: []wm.Field{{K: wm.NameU, N: name("B", "Example", "ORG")}, {K: wm.Bitmap, T: []uint16{1, 30}}}}}
		return checkSign(c)
	})
	// DESIGN §4 #8
	pbt.Probe(findPadded, func() error {
		c := base
		c.Alg, c.Pad = ref.AlgECDSAP256, true
		c.Set = []wm.Rec{a(name("www", "example", "org"), 192, 0, 2, 1), a(name("www", "example", "org"), 192, 0, 2, 2)}
		return checkSign(c)
	})
	// round 7, remark 1: owner "\065.example.org." (A record) and MX "\077ail.Example.org." - the letters
	// written as \DDD reach the signed data unfolded
	pbt.Probe(findDDD, func() error {
		c := base
		c.Set = []wm.Rec{a(name("A", "example", "org"), 192, 0, 2, 1)}
		c.Spell = spelling{Owner: 1} // first octet of the owner: \065.example.org.
		if err := checkSign(c); err != nil {
			return err
		}
		c = base
		c.Set = []wm.Rec{{Name: name("mx", "example", "org"), Type: wm.TMX, Class: 1, TTL: 300,
			Fields: []wm.Field{{K: wm.U16, U: 10}, {K: wm.NameC, N: name("Mail", "Example", "org")}}}}
		c.Spell = spelling{Rdata: 1} // \077ail.Example.org.
		return checkSign(c)
	})
	// round 7, remark 3: A.example.org. and a.example.org. in one RRset
	pbt.Probe(findMixedOwner, func() error {
		c := base
		c.Set = []wm.Rec{a(name("A", "example", "org"), 192, 0, 2, 1), a(name("a", "example", "org"), 192, 0, 2, 2)}
		c.MixedOwner = true
		return checkSign(c)
	})
	// round 9, remark 1: *foo.example.org. is signed as if it were the wildcard *.example.org.
	pbt.Probe(findStarLabel, func() error {
		c := base
		c.Set = []wm.Rec{a(name("*foo", "example", "org"), 192, 0, 2, 1)}
		c.StarLabel = true
		return checkSign(c)
	})
	// round 10, remark 1: one name written in two ways at two sites that Verify compares as text.
	// (a) the records are owned by `w\ww.example.org.`, the RRSIG (made by the reference) by
	// `www.example.org.`; (b) Sign is handed the signer name `ex\ample.org.`, the DNSKEY is owned by
	// `example.org.`; (c) the records are owned by `www.ex\ample.org.`, the signer is `example.org.`
	pbt.Probe(findTextCompare, func() error {
		for _, sp := range []spelling{{Style: styleBackslashLetter, Owner: 2}, {Style: styleBackslashLetter, Signer: 4}, {Style: styleBackslashLetter, Owner: 1 << 5, SigOwner: 1 << 5}} {
			c := base
			c.Set = []wm.Rec{a(name("www", "example", "org"), 192, 0, 2, 1)}
			c.Spell = sp
			if err := checkSign(c); err != nil {
				return err
			}
		}
		return nil
	})
	// round 7, remark 4: a key whose tag is 0 (Ed25519 keys from the seeds 1, 2, ...: the first one for
	// which a flags value with the ZONE bit gives tag 0)
	pbt.Probe(findTag0, func() error {
		c := base
		c.Set = []wm.Rec{a(name("www", "example", "org"), 192, 0, 2, 1)}
		for seed := byte(1); seed < 64; seed++ {
			c.KeySeed = []byte{seed}
			oct, _ := ref.KeyOctets(c.Alg, ref.PublicOf(ref.Ed25519KeyFromSeed(c.KeySeed)))
			if f, ok := flagsForTagZero(c.Alg, oct); ok {
				c.KeyFlags = f
				return checkSign(c)
			}
		}
		return nil
	})
}
