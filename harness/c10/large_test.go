package c10

import (
	"bytes"
	"crypto/sha256"
	"encoding/base64"
	"encoding/binary"
	"fmt"
	"sort"

	"github.com/miekg/dns"
	"pgregory.net/rapid"

	"verif/harness/gen"
	"verif/harness/pbt"
	ref "verif/harness/refcrypto"
	wm "verif/harness/wiremodel"
)

// ---------------------------------------------------------------------------------------------
// Round 10: "for EVERY RRset ... an RRSIG produced by Sign verifies" - the size of the RRset.
//
// The signed data of RFC 4034 3.1.8.1 writes the owner name out in full in front of every record
// (no compression), a message carries it once and points to it from every other record. An RRset
// of a few hundred small records under a long owner name is therefore an everyday message of a few
// KiB whose signed data is longer than 65535 octets - the size at which every 16-bit length of the
// protocol and every "a message buffer is enough" assumption ends. The sub-check large-rrset
// generates such sets around and beyond that size (and well below it: a hundred records are as
// much outside the 1..6 records of sign-verify-alter): many small records (A, AAAA), medium ones
// (TXT, DNSKEY, opaque RDATA of unknown types), records whose RDATA holds long names that a message
// compresses and the canonical form folds and writes out (NS, MX). Every set fits a DNS message
// (built by the harness's own compressing encoder; at most 65535 octets), and the records reach
// the library by unpacking that message, as a validator gets them.
//
// The case holds parameters only; the records are a fixed function of them (SHA-256 in counter
// mode over the drawn seed), so a saved case is small and replays without rapid.

type largeCase struct {
	Owner      wm.Name // owner of every record (long); the rightmost ZoneLabels labels are the signer
	ZoneLabels int
	Type       uint16
	Class      uint16
	N          int    // distinct records
	R          int    // RDATA octets per record (TXT, DNSKEY, opaque types); octets of the first RDATA name label (NS, MX)
	RLast      int    // RDATA octets of the last distinct record when > 0 (to land on an exact size)
	Dups       int    // records repeated on top of the N distinct ones
	Seed       []byte // everything else about the records: RDATA octets, order, TTLs, which ones are repeated
	Alg        uint8
	KeySlot    int
	KeySeed    []byte
	KeyFlags   uint16
	OrigTTL    uint32
	Incep      uint32
	Expir      uint32
	Expansion  []byte // replaces the "*" of a wildcard owner in the expansion invariance
}

const (
	largeMaxQuick    = 1500
	largeMaxThorough = 4000
)

func largeTypeOK(t uint16) bool {
	switch t {
	case wm.TA, wm.TAAAA, wm.TTXT, wm.TDNSKEY, wm.TNS, wm.TMX, wm.TNULL, 65400:
		return true
	}
	return false
}

func largeVariable(t uint16) bool {
	return t == wm.TTXT || t == wm.TDNSKEY || t == wm.TNULL || t == 65400
}

func (c largeCase) valid() bool {
	if !c.Owner.Valid() || len(c.Owner) == 0 || c.ZoneLabels < 0 || c.ZoneLabels > len(c.Owner) || !largeTypeOK(c.Type) {
		return false
	}
	if c.N < 2 || c.N > largeMaxThorough || c.Dups < 0 || c.Dups > 64 || c.KeyFlags&0x0100 == 0 || len(c.Seed) == 0 {
		return false
	}
	if largeVariable(c.Type) && (c.R < 7 || c.R > 4096 || c.RLast < 0 || c.RLast > 8192) {
		return false
	}
	if !largeVariable(c.Type) && (c.R < 1 || c.R > 50) {
		return false
	}
	return true
}

// octets is the deterministic expansion of the seed for record i and purpose tag.
func (c largeCase) octets(i int, tag string, n int) []byte {
	out := make([]byte, 0, n+sha256.Size)
	for ctr := 0; len(out) < n; ctr++ {
		h := sha256.New()
		h.Write(c.Seed)
		fmt.Fprintf(h, "|%d|%s|%d", i, tag, ctr)
		out = h.Sum(out)
	}
	return out[:n]
}

func (c largeCase) zone() wm.Name { return c.Owner[len(c.Owner)-c.ZoneLabels:].Clone() }

// rdataName is the name in the RDATA of the i-th NS / MX record: a label of its own (the record
// number in hex, then R letters in drawn case) in front of a suffix of the owner written in another
// letter case - long, compressible in a message, folded and written out in the canonical form.
func (c largeCase) rdataName(i int) wm.Name {
	h := c.octets(i, "name", c.R+8)
	l := []byte(fmt.Sprintf("%x", i))
	for j := 0; j < c.R && len(l) < 63; j++ {
		ch := byte('a' + h[j]%26)
		if h[j]&0x80 != 0 {
			ch -= 'a' - 'A'
		}
		l = append(l, ch)
	}
	for k := 1 + int(h[c.R])%len(c.Owner); k <= len(c.Owner); k++ {
		suffix := c.Owner[k:].Clone()
		if h[c.R+1]&1 == 1 {
			suffix = invertCase(suffix)
		}
		if n := append(wm.Name{l}, suffix...); n.Valid() {
			return n
		}
	}
	return wm.Name{l}
}

// fields is the RDATA of the i-th distinct record; r its size for the types of variable size.
// Two octets of every RDATA are the record number (under a mask that is the same for all records),
// so the N records are distinct whatever the seed.
func (c largeCase) fields(i, r int) []wm.Field {
	k := c.octets(-1, "mask", 2)
	mark := func(b []byte, at int) []byte {
		b[at], b[at+1] = byte(i>>8)^k[0], byte(i)^k[1]
		return b
	}
	switch c.Type {
	case wm.TA:
		return []wm.Field{{K: wm.IPv4, B: mark(c.octets(i, "rd", 4), 2)}}
	case wm.TAAAA:
		return []wm.Field{{K: wm.IPv6, B: mark(c.octets(i, "rd", 16), 9)}}
	case wm.TNS:
		return []wm.Field{{K: wm.NameC, N: c.rdataName(i)}}
	case wm.TMX:
		return []wm.Field{{K: wm.U16, U: uint64(binary.BigEndian.Uint16(c.octets(i, "pref", 2)))}, {K: wm.NameC, N: c.rdataName(i)}}
	case wm.TTXT:
		// r octets of RDATA: character-strings of up to 255 octets, each with its length octet
		raw := c.octets(i, "rd", r)
		if r >= 3 {
			mark(raw, 0)
		}
		var l [][]byte
		for rem := r; rem > 0; {
			take := min(rem, 256)
			l = append(l, append([]byte(nil), raw[:take-1]...))
			raw, rem = raw[take-1:], rem-take
		}
		return []wm.Field{{K: wm.Strs, L: l}}
	case wm.TDNSKEY:
		raw := c.octets(i, "rd", max(r, 7))
		key := raw[4:]
		if len(key) >= 2 {
			mark(key, 0)
		}
		return []wm.Field{{K: wm.U16, U: uint64(binary.BigEndian.Uint16(raw))}, {K: wm.U8, U: 3}, {K: wm.U8, U: uint64(raw[3])}, {K: wm.Rest, B: append([]byte(nil), key...)}}
	default: // opaque RDATA
		raw := c.octets(i, "rd", r)
		if r >= 3 {
			mark(raw, 1)
		}
		return []wm.Field{{K: wm.Rest, B: raw}}
	}
}

func (c largeCase) ttl(i int, tag string) uint32 {
	h := c.octets(i, tag, 5)
	switch h[4] % 4 {
	case 0:
		return []uint32{0, 1, 300, 3600, 1<<31 - 1, 1<<32 - 1}[h[0]%6]
	}
	return binary.BigEndian.Uint32(h)
}

// records is the RRset as handed over: the N distinct records in an order given by the seed, with
// Dups repeated records put in between (for NS / MX the repetition has the letter case of its RDATA
// name inverted: a repetition in the canonical form only).
func (c largeCase) records() []wm.Rec {
	type keyed struct {
		k []byte
		r wm.Rec
	}
	recs := make([]keyed, 0, c.N+c.Dups)
	mk := func(i, r int) wm.Rec {
		return wm.Rec{Name: c.Owner.Clone(), Type: c.Type, Class: c.Class, TTL: c.ttl(i, "ttl"), Fields: c.fields(i, r)}
	}
	for i := 0; i < c.N; i++ {
		r := c.R
		if i == c.N-1 && c.RLast > 0 && largeVariable(c.Type) {
			r = c.RLast
		}
		recs = append(recs, keyed{c.octets(i, "order", 8), mk(i, r)})
	}
	for d := 0; d < c.Dups; d++ {
		h := c.octets(d, "dup", 8)
		x := cloneRec(recs[int(binary.BigEndian.Uint32(h))%c.N].r)
		x.TTL = c.ttl(d, "dupttl")
		if h[4]&1 == 1 {
			mapNames(&x, invertCase)
		}
		recs = append(recs, keyed{c.octets(d, "duporder", 8), x})
	}
	sort.SliceStable(recs, func(i, j int) bool { return bytes.Compare(recs[i].k, recs[j].k) < 0 })
	out := make([]wm.Rec, len(recs))
	for i := range recs {
		out[i] = recs[i].r
	}
	return out
}

// largeMessage is a response that carries the set as its answer section, from the harness's own
// compressing encoder (owner names and the RDATA names of NS / MX become pointers).
func largeMessage(set []wm.Rec) ([]byte, error) {
	m := wm.Msg{ID: 0x3a10, Flags: 0x8400, Q: []wm.Question{{Name: set[0].Name.Clone(), Type: set[0].Type, Class: set[0].Class}}, An: set}
	return wm.EncodeCompressed(m, false)
}

// largeLibSet hands the set to the library the way a validator gets it: as the answer section of a
// message. ok=false: the set does not fit a message, or the library does not give the records back
// as they were encoded (properties C01 / C04, not this one).
func largeLibSet(set []wm.Rec) (rrs []dns.RR, msgLen int, ok bool) {
	if len(set) == 0 {
		return nil, 0, false
	}
	wire, err := largeMessage(set)
	if err != nil || len(wire) > 65535 {
		return nil, len(wire), false
	}
	var m dns.Msg
	if m.Unpack(wire) != nil || len(m.Answer) != len(set) {
		return nil, len(wire), false
	}
	return m.Answer, len(wire), true
}

func largeVerify(w world) error {
	set, _, ok := largeLibSet(w.Set)
	if !ok {
		return fmt.Errorf("not decodable")
	}
	return w.libSig().Verify(w.libKey(), set)
}

func sizeClass(n int) string {
	switch {
	case n < 32768:
		return "<32768"
	case n < 65536-64:
		return "32768..65471"
	case n <= 65535:
		return "65472..65535"
	case n <= 65535+64:
		return "65536..65599"
	case n < 131072:
		return "65600..131071"
	case n < 262144:
		return "131072..262143"
	}
	return ">=262144"
}

func checkLarge(c largeCase) error {
	if !c.valid() {
		return nil
	}
	priv, kerr := privFor(c.Alg, c.KeySlot, c.KeySeed)
	if kerr != nil {
		return nil
	}
	set := c.records()
	owner, zone := c.Owner, c.zone()
	wild := isWild(owner)
	keyOct, _ := ref.KeyOctets(c.Alg, ref.PublicOf(priv))
	base := world{Set: set, SigOwner: owner.Clone(), SigClass: c.Class, KeyOwner: zone.Clone(), KeyClass: c.Class,
		KeyFlags: c.KeyFlags, KeyProto: 3, KeyAlg: c.Alg, KeyOctets: keyOct}
	tag := ref.KeyTag(base.keyRdata())
	if tag == 0 && pbt.Known(findTag0) {
		return nil
	}
	libSet, msgLen, ok := largeLibSet(set)
	if !ok {
		pbt.Class(fmt.Sprintf("skipped:no-message-with-the-set(%d octets)", msgLen))
		return nil
	}
	for i, rr := range libSet {
		want, _ := wm.EncodeRR(set[i])
		buf := make([]byte, len(want)+64)
		off, perr := dns.PackRR(rr, buf, 0, nil, false)
		if perr != nil || !bytes.Equal(buf[:off], want) {
			pbt.Class("skipped:repack-differs(C01)")
			return nil
		}
	}
	wantTTL := c.OrigTTL
	if wantTTL == 0 {
		wantTTL = set[0].TTL
	}
	wantLabels := len(owner)
	if wild {
		wantLabels--
	}
	rfcFields := sigFields{TypeCovered: c.Type, Alg: c.Alg, Labels: uint8(wantLabels), OrigTTL: wantTTL, Expiration: c.Expir, Inception: c.Incep, KeyTag: tag, Signer: zone.Clone()}
	data, derr := signedData(set, rfcFields)
	if derr != nil {
		return nil
	}
	prefix := 18 + zone.WireLen()
	recOctets := len(data) - prefix
	classes := []string{fmt.Sprintf("alg=%d", c.Alg), "type=" + typeName(c.Type), "signed-data-octets=" + sizeClass(len(data)), "canonical-records-octets=" + sizeClass(recOctets),
		fmt.Sprintf("signed-data-exceeds-65535=%v", len(data) > 65535), fmt.Sprintf("wildcard=%v", wild), fmt.Sprintf("repeated-records=%v", c.Dups > 0),
		fmt.Sprintf("owner-wire-octets>=250=%v", owner.WireLen() >= 250), fmt.Sprintf("lowertype=%v", lowerTypes[c.Type])}
	switch {
	case len(set) < 100:
		classes = append(classes, "records<100")
	case len(set) < 400:
		classes = append(classes, "records=100..399")
	default:
		classes = append(classes, "records>=400")
	}
	switch {
	case msgLen < 8192:
		classes = append(classes, "message-octets<8192")
	case msgLen < 32768:
		classes = append(classes, "message-octets=8192..32767")
	default:
		classes = append(classes, "message-octets=32768..65535")
	}
	pbt.Note([]byte(fmt.Sprintf("%s|%d|%d|%d|%d|%d|%d|%x|%d|%d|%x", wm.EscName(owner), c.ZoneLabels, c.Type, c.N, c.R, c.RLast, c.Dups, c.Seed, c.Alg, c.KeySlot, c.KeySeed)), true, classes...)
	if len(data) > 65535 {
		pbt.Sample("signed-data-exceeds-65535", fmt.Sprintf("%d records of type %s under an owner of %d octets: message %d octets, signed data %d octets", len(set), typeName(c.Type), owner.WireLen(), msgLen, len(data)))
	}
	what := fmt.Sprintf("%d records (%d distinct) of type %s class %d under %s (%d octets on the wire), alg %d: the message that carries the set has %d octets, the RFC 4034 3.1.8.1 signed data %d",
		len(set), c.N, typeName(c.Type), c.Class, wm.EscName(owner), owner.WireLen(), c.Alg, msgLen, len(data))

	// (1) the library signs; the reference and the library verify
	sig := &dns.RRSIG{Inception: c.Incep, Expiration: c.Expir, KeyTag: tag, SignerName: wm.EscName(zone), Algorithm: c.Alg, OrigTtl: c.OrigTTL}
	if serr := sig.Sign(ref.RandCheckedSigner{Inner: ref.DetSigner{Key: priv}}, libSet); serr != nil {
		return pbt.Errf("RRSIG.Sign failed: %v - %s", serr, what)
	}
	raw, berr := base64.StdEncoding.DecodeString(sig.Signature)
	if berr != nil {
		return pbt.Errf("Sign produced a signature that is not base64: %q", sig.Signature)
	}
	if sig.TypeCovered != c.Type || sig.Hdr.Class != c.Class || sig.OrigTtl != wantTTL || int(sig.Labels) != wantLabels || sig.KeyTag != tag {
		return pbt.Errf("Sign filled the RRSIG with type %d class %d origttl %d labels %d tag %d; want %d %d %d %d %d - %s", sig.TypeCovered, sig.Hdr.Class, sig.OrigTtl, sig.Labels, sig.KeyTag,
			c.Type, c.Class, wantTTL, wantLabels, tag, what)
	}
	signed := base
	signed.F = rfcFields
	signed.F.Signer = zone.Clone()
	signed.SigTTL = wantTTL
	signed.Signature = raw
	if rerr := signed.refVerify(); rerr != nil {
		return pbt.Errf("the reference rejects the signature made by RRSIG.Sign: %v - %s", rerr, what)
	}
	if verr := sig.Verify(signed.libKey(), libSet); verr != nil {
		return pbt.Errf("RRSIG.Verify of the signature just made by Sign failed: %v - %s", verr, what)
	}
	// (2) the reference signs, the library verifies
	refw := base.clone()
	refw.F = rfcFields
	refw.F.Signer = zone.Clone()
	refw.SigTTL = wantTTL
	var serr error
	if refw.Signature, serr = ref.SignSig(c.Alg, priv, data, nil); serr != nil {
		return nil
	}
	if refw.refVerify() != nil {
		return nil
	}
	if verr := largeVerify(refw); verr != nil {
		return pbt.Errf("RRSIG.Verify rejects a signature made by the reference over the RFC 4034 canonical form: %v - %s", verr, what)
	}

	// (3) invariances, on both signatures
	pick := func(tag string, n int) int { return int(binary.BigEndian.Uint32(c.octets(0, tag, 4)) % uint32(n)) }
	type variant struct {
		name string
		w    world
	}
	var inv []variant
	for _, b := range []struct {
		tag string
		w   world
	}{{"lib-signed", signed}, {"ref-signed", refw}} {
		n := len(b.w.Set)
		v := b.w.clone()
		rot := pick("rot", n)
		for i := range v.Set {
			v.Set[i] = cloneRec(b.w.Set[(n-1-i+rot)%n])
		}
		inv = append(inv, variant{b.tag + ": records reordered", v})
		v = b.w.clone()
		for j := 0; j < 3; j++ {
			v.Set = append(v.Set, cloneRec(b.w.Set[pick(fmt.Sprintf("rep%d", j), n)]))
		}
		v.Set = append([]wm.Rec{cloneRec(b.w.Set[n-1])}, v.Set...)
		inv = append(inv, variant{b.tag + ": four records repeated", v})
		v = b.w.clone()
		for i := range v.Set {
			v.Set[i].TTL = c.ttl(i, "newttl")
		}
		inv = append(inv, variant{b.tag + ": current TTLs changed", v})
		if hasLetter(owner) {
			v = b.w.clone()
			for i := range v.Set {
				if i%2 == 1 {
					v.Set[i].Name = invertCase(v.Set[i].Name)
				}
			}
			v.SigOwner = invertCase(v.SigOwner)
			inv = append(inv, variant{b.tag + ": owner letter case inverted in every other record and in the RRSIG", v})
		}
		if lowerTypes[c.Type] {
			v = b.w.clone()
			for i := range v.Set {
				if i%3 != 1 {
					mapNames(&v.Set[i], invertCase)
				}
			}
			inv = append(inv, variant{b.tag + ": letter case of RDATA names inverted in two records of three", v})
		}
		if wild && len(c.Expansion) > 0 && len(c.Expansion) <= 63 && string(c.Expansion) != "*" {
			exp := append(wm.Name{append([]byte(nil), c.Expansion...)}, owner[1:].Clone()...)
			if exp.Valid() {
				v = b.w.clone()
				for i := range v.Set {
					v.Set[i].Name = exp.Clone()
				}
				v.SigOwner = exp.Clone()
				inv = append(inv, variant{b.tag + ": wildcard owner replaced by an expansion", v})
			}
		}
	}
	for _, v := range inv {
		if _, _, ok := largeLibSet(v.w.Set); !ok {
			continue // the variant no longer fits a message
		}
		if rerr := v.w.refVerify(); rerr != nil {
			return pbt.Errf("harness: the reference rejects the invariance variant %q: %v", v.name, rerr)
		}
		if verr := largeVerify(v.w); verr != nil {
			return pbt.Errf("RRSIG.Verify fails after %q: %v - %s", v.name, verr, what)
		}
		pbt.Class("invariance")
	}

	// (4) only-if: a few alterations per case (the full table is the business of sign-verify-alter;
	// here: that the size of the set does not switch a comparison off)
	var alts []variant
	add := func(name string, f func(w *world) bool) {
		v := signed.clone()
		if f(&v) {
			alts = append(alts, variant{name, v})
		}
	}
	layout, _ := wm.LayoutOf(c.Type)
	for _, at := range []struct {
		name string
		i    int
	}{{"the first record handed over", 0}, {"the last record handed over", len(set) - 1}, {"a record in between", pick("alt", len(set))}} {
		at := at
		add("a field of "+at.name+" changed", func(w *world) bool {
			j := len(w.Set[at.i].Fields) - 1
			if j >= len(layout) || !changeField(&w.Set[at.i], j, layout[j]) {
				return false
			}
			// the altered record must not be a repetition of another one
			x := string(canonRdata(w.Set[at.i]))
			for k, r := range w.Set {
				if k != at.i && string(canonRdata(r)) == x {
					return false
				}
			}
			return true
		})
	}
	add("a record removed", func(w *world) bool {
		x := string(canonRdata(w.Set[0]))
		var keep []wm.Rec
		for _, r := range w.Set {
			if string(canonRdata(r)) != x {
				keep = append(keep, r)
			}
		}
		w.Set = keep
		return len(keep) > 0
	})
	add("a record added", func(w *world) bool {
		x := wm.Rec{Name: owner.Clone(), Type: c.Type, Class: c.Class, TTL: 1, Fields: c.fields(c.N, c.R)}
		w.Set = append(w.Set, x)
		return true
	})
	add("original TTL +1", func(w *world) bool { w.F.OrigTTL++; return true })
	add("labels -1", func(w *world) bool {
		if w.F.Labels == 0 {
			return false
		}
		w.F.Labels--
		return true
	})
	add("key class differs", func(w *world) bool { w.KeyClass ^= 2; return true })
	add("one bit of the signature flipped", func(w *world) bool {
		b := pick("sigbit", len(w.Signature)*8)
		w.Signature[b/8] ^= 1 << (b % 8)
		return true
	})
	for _, a := range alts {
		pbt.Class("alteration")
		if largeVerify(a.w) != nil {
			continue
		}
		if rerr := a.w.refVerify(); rerr != nil {
			return pbt.Errf("RRSIG.Verify accepted the alteration %q; reference: %v - %s", a.name, rerr, what)
		}
		pbt.Class("alteration-accepted-by-both:" + a.name)
	}
	return nil
}

// ---------------------------------------------------------------------------------------------
// generator

func genLarge(t *rapid.T) largeCase {
	c := largeCase{}
	plain := rapid.IntRange(0, 2).Draw(t, "plain") > 0
	wireLen := rapid.SampledFrom([]int{255, 255, 254, 253, 253, 200, 128, 64, 40}).Draw(t, "ownerwire")
	c.Owner = gen.NameOfWireLen(t, wireLen, gen.NameOpts{Plain: plain})
	if !c.Owner.Valid() || len(c.Owner) == 0 {
		c.Owner = wm.Name{bytes.Repeat([]byte("a"), 60), bytes.Repeat([]byte("B"), 60), bytes.Repeat([]byte("c"), 60), []byte("example")}
	}
	if rapid.IntRange(0, 4).Draw(t, "wild") == 0 && len(c.Owner) > 1 {
		c.Owner[0] = []byte("*")
		c.Expansion = gen.Label(t, gen.NameOpts{MaxLabel: 12, Plain: plain})
		if string(c.Expansion) == "*" {
			c.Expansion = []byte("host")
		}
	} else if c.Owner[0][0] == '*' {
		c.Owner[0][0] = 'x' // owners that merely start with "*" belong to sign-verify-alter
	}
	c.ZoneLabels = rapid.IntRange(0, min(2, len(c.Owner)-1)).Draw(t, "zonelabels")
	c.Class = rapid.SampledFrom([]uint16{1, 1, 1, 1, 3, 254}).Draw(t, "class")
	c.Type = rapid.SampledFrom([]uint16{wm.TA, wm.TA, wm.TAAAA, wm.TTXT, wm.TTXT, wm.TDNSKEY, wm.TNS, wm.TMX, wm.TNULL, 65400}).Draw(t, "type")
	if largeVariable(c.Type) {
		c.R = rapid.OneOf(rapid.SampledFrom([]int{7, 16, 36, 68, 255, 256, 257, 600}), rapid.IntRange(7, 700)).Draw(t, "r")
	} else {
		c.R = rapid.IntRange(1, 40).Draw(t, "namelabel")
	}
	c.Seed = rapid.SliceOfN(rapid.Byte(), 4, 12).Draw(t, "seed")
	c.Alg = rapid.SampledFrom(algs).Draw(t, "alg")
	c.KeySlot = rapid.IntRange(0, ref.RSAPoolSize()-1).Draw(t, "slot")
	c.KeySeed = rapid.SliceOfN(rapid.Byte(), 1, 16).Draw(t, "keyseed")
	c.KeyFlags = 0x0100 | uint16(rapid.IntRange(0, 1).Draw(t, "sep"))
	if rapid.Bool().Draw(t, "explicitttl") {
		c.OrigTTL = rapid.Uint32Range(1, 1<<32-1).Draw(t, "origttl")
	}
	c.Incep, c.Expir = rapid.Uint32().Draw(t, "incep"), rapid.Uint32().Draw(t, "expir")
	c.Dups = rapid.SampledFrom([]int{0, 0, 1, 3, 17}).Draw(t, "dups")

	// the size aimed at: octets of the canonical records (or of the whole signed data)
	// (inside the coverage-guided layer the sizes of the quick tier are used: one input has 10 s there, see exhaustive)
	maxN := largeMaxQuick
	if exhaustive() {
		maxN = largeMaxThorough
	}
	var target int
	exact := false
	switch k := rapid.IntRange(0, 9).Draw(t, "sizeclass"); {
	case k <= 2: // at the 16-bit boundary
		target = 65535 + rapid.IntRange(-40, 40).Draw(t, "delta")
		exact = true
		if rapid.Bool().Draw(t, "withprefix") {
			target -= 18 + c.zone().WireLen() // the boundary counted over the whole signed data
		}
	case k <= 6:
		target = rapid.IntRange(65536, 140000).Draw(t, "above")
	case k == 7:
		target = rapid.IntRange(16000, 65000).Draw(t, "below")
	default:
		far := 400000
		if exhaustive() {
			far = 1 << 20
		}
		target = rapid.IntRange(140000, far).Draw(t, "far")
	}
	roundUp := rapid.Bool().Draw(t, "roundup")
	// octets of one canonical record (NS / MX: of the first few, their names differ in length)
	per := func() int {
		c.N, c.RLast = 8, 0
		sum := 0
		save := c.Dups
		c.Dups = 0
		for _, r := range c.records() {
			sum += r.Name.WireLen() + 10 + len(canonRdata(r))
		}
		c.Dups = save
		return sum / 8
	}
	for attempt := 0; attempt < 8; attempt++ {
		p := per()
		n := target / p
		if roundUp {
			n++
		}
		c.N, c.RLast = max(2, min(n, maxN)), 0
		if exact && largeVariable(c.Type) && c.N == n {
			// all records but the last have R octets of RDATA; the last one takes what is left
			n = target / p
			last := target - (n-1)*p - (c.Owner.WireLen() + 10)
			if last < 1 {
				n, last = n-1, last+p
			}
			if n >= 2 && last >= 1 && last != c.R {
				c.N, c.RLast = n, last
			}
		}
		wire, err := largeMessage(c.records())
		if err == nil && len(wire) <= 65535 {
			break
		}
		// does not fit a message: smaller RDATA first (the owner name is what the canonical form adds)
		if largeVariable(c.Type) && c.R > 7 {
			c.R = max(7, c.R/3)
		} else {
			target = target * 3 / 4
		}
		c.RLast = 0
	}
	return c
}

func init() {
	// quick: 30 sets per run; thorough: 80 per shard (sets of up to 4000 records, up to 1 MiB of signed data)
	w := 0.1
	if pbt.Thorough() {
		w = 0.04
	}
	pbt.Register(pbt.Sub[largeCase]{Name: "large-rrset", Weight: w, Gen: genLarge, Check: checkLarge})
}
