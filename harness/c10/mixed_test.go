package c10

import (
	"fmt"

	wm "verif/harness/wiremodel"
)

// ---------------------------------------------------------------------------------------------
// Round 8: "the RRset matches the RRSIG's owner, class and covered type" for EVERY record of the
// set, not only for the first one (Verify compares rrset[0] with the RRSIG itself and leaves the
// other records to the helper IsRRset). One record of a verifying world gets another owner (or
// class, or type), or a copy of a record with another owner is put into the set - in every
// position, and for every world that verifies: the signature as Sign made it, and the
// wildcard-expanded worlds (Labels below the owner's label count), in which the canonical form
// rewrites every owner to "*." + the rightmost Labels labels, so that an owner which merely ENDS
// in the same labels yields the same signed octets. None of these sets is an RRset; Verify must
// fail for all of them (the reference predicate decides; see refVerify).

type namedWorld struct {
	name string
	w    world
}

// otherOwners are names related to o but different from it (under case folding): what a helper that
// compares "label by label", by suffix, by label count or by prefix could take for the same name.
func otherOwners(o wm.Name) []namedWorld {
	var out []namedWorld
	add := func(kind string, n wm.Name) {
		if n.Valid() && !equalFold(n, o) {
			out = append(out, namedWorld{name: kind, w: world{SigOwner: n}})
		}
	}
	add("a subdomain (one more label)", append(wm.Name{[]byte("x")}, o.Clone()...))
	add("a subdomain two labels down, written in the other letter case", append(wm.Name{[]byte("a"), []byte("B")}, invertCase(o)...))
	if len(o) > 0 {
		sib := o.Clone()
		sib[0][0] ^= 0x01
		add("a sibling (first label differs in one bit)", sib)
		sib = o.Clone()
		sib[0] = append(sib[0], 'x')
		add("a sibling (first label one octet longer)", sib)
		add("the parent", o[1:].Clone())
		add("the wildcard next to it (*.<parent>)", append(wm.Name{[]byte("*")}, o[1:].Clone()...))
	}
	if len(o) > 1 {
		add("the grandparent", o[2:].Clone())
		inner := o.Clone()
		inner[len(inner)-1][0] ^= 0x01
		add("a name of the same length whose LAST label differs", inner)
	}
	return out
}

// mixedSetAlterations derives from each verifying world the sets in which one record does not
// belong to the RRset.
//
// Positions: all of them for sets of up to three records and in the thorough tier; otherwise the
// first, the last and one in between chosen by pick (a drawn value of the case).
func mixedSetAlterations(bases []namedWorld, otherType uint16, pick int, all bool) []namedWorld {
	var out []namedWorld
	positions := func(n int) []int { // n >= 1 positions 0..n-1
		if all || n <= 3 {
			p := make([]int, n)
			for i := range p {
				p[i] = i
			}
			return p
		}
		return []int{0, 1 + ((pick%(n-2))+(n-2))%(n-2), n - 1}
	}
	for _, b := range bases {
		n := len(b.w.Set)
		if n == 0 {
			continue
		}
		// label is kept free of concrete names (it becomes an evidence class when both sides accept)
		emit := func(label string, v world) {
			out = append(out, namedWorld{name: label + " [" + b.name + fmt.Sprintf(", Labels %d, owner of %d labels]", b.w.F.Labels, len(b.w.SigOwner)), w: v})
		}
		pos := func(p, n int) string {
			switch {
			case p == 0:
				return "the first record"
			case p == n-1:
				return "the last record"
			}
			return "a middle record"
		}
		for _, o := range otherOwners(b.w.Set[0].Name) {
			x := o.w.SigOwner
			// (a) the owner of ONE record replaced (needs a second record to stay behind)
			if n >= 2 {
				for _, p := range positions(n) {
					v := b.w.clone()
					v.Set[p].Name = x.Clone()
					emit("owner of "+pos(p, n)+" replaced by "+o.name, v)
					if p == 0 {
						// ... and the RRSIG's own owner goes with the first record, so that the
						// comparison of rrset[0] with the RRSIG holds and only the other records differ
						v = v.clone()
						v.SigOwner = x.Clone()
						emit("owner of the first record and of the RRSIG replaced by "+o.name, v)
					}
				}
			}
			// (b) a copy of a record, owned by the other name, put into the set (under a wildcard
			// expansion its canonical form is the one of the original: the signed octets do not change)
			for _, p := range positions(n + 1) {
				v := b.w.clone()
				extra := cloneRec(b.w.Set[p%n])
				extra.Name = x.Clone()
				set := append([]wm.Rec{}, v.Set[:p]...)
				set = append(set, extra)
				v.Set = append(set, v.Set[p:]...)
				emit("copy of a record owned by "+o.name+" inserted as "+pos(p, n+1), v)
				if p == 0 {
					v = v.clone()
					v.SigOwner = x.Clone()
					emit("copy of a record owned by "+o.name+" inserted as the first record, RRSIG owner replaced too", v)
				}
			}
		}
		// (c) class / type of ONE record
		if n >= 2 {
			for _, p := range positions(n) {
				v := b.w.clone()
				v.Set[p].Class ^= 2
				emit("class of "+pos(p, n)+" changed", v)
				v = b.w.clone()
				rd := wm.EncodeRdata(v.Set[p])
				v.Set[p].Type = otherType
				v.Set[p].Fields = []wm.Field{{K: wm.Rest, B: rd}}
				emit("type of "+pos(p, n)+" changed (same RDATA octets)", v)
			}
		}
	}
	return out
}

func ownersOf(w world) []string {
	var o []string
	for _, r := range w.Set {
		o = append(o, wm.EscName(r.Name))
	}
	return o
}
