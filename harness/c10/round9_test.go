package c10

import (
	"fmt"

	"pgregory.net/rapid"

	ref "verif/harness/refcrypto"
	wm "verif/harness/wiremodel"
)

// ---------------------------------------------------------------------------------------------
// Round 9 (a): the key tag at the boundary of its own arithmetic.
//
// "the key ... whose tag ... match[es] the RRSIG" / "any change to ... key tag ... makes it fail":
// the tag is the one of RFC 4034 appendix B,
//
//	for ( ac = 0, i = 0; i < keysize; ++i ) ac += (i & 1) ? key[i] : key[i] << 8;
//	ac += (ac >> 16) & 0xFFFF;
//	return ac & 0xFFFF;
//
// i.e. the high half is added ONCE and whatever that addition carries out of 16 bits is dropped - it
// is not an end-around-carry (one's complement) sum. The two agree unless the single addition itself
// overflows: (ac & 0xFFFF) + (ac >> 16) > 0xFFFF, about one key in 65536 / (ac >> 16) - far too rare
// to meet by drawing keys. The flags field is the first 16-bit word of the sum, so for about half
// of the keys a flags value with the ZONE bit puts the low half of the sum right below 2^16.

// keyTagSum is the accumulator of the appendix B code before the folding step.
func keyTagSum(rdata []byte) uint32 {
	var ac uint32 // at most 65535 octets of RDATA, each weighted by at most 256: fits
	for i, b := range rdata {
		if i&1 == 1 {
			ac += uint32(b)
		} else {
			ac += uint32(b) << 8
		}
	}
	return ac
}

// tagFoldCarries reports whether the one folding step of appendix B overflows 16 bits.
func tagFoldCarries(rdata []byte) bool {
	ac := keyTagSum(rdata)
	return ac&0xFFFF+ac>>16 > 0xFFFF
}

// endAroundTag is what a one's complement style computation (carries folded in until none is left)
// gives: NOT the key tag whenever tagFoldCarries.
func endAroundTag(rdata []byte) uint16 {
	ac := keyTagSum(rdata)
	for ac > 0xFFFF {
		ac = ac>>16 + ac&0xFFFF
	}
	return uint16(ac)
}

// flagsForTagCarry looks for the flags values with the ZONE bit for which the DNSKEY (protocol 3)
// is in the carrying case and has a key tag other than 0 (tag 0 is a class of its own), and returns
// the pick-th of them.
func flagsForTagCarry(alg uint8, keyOct []byte, pick int) (uint16, bool) {
	rest := keyTagSum(ref.DNSKEYRdata(0, 3, alg, keyOct))
	hi := (rest + 0xFFFF) >> 16 // upper bound of ac >> 16 whatever the flags are
	var cands []uint16
	for d := uint32(0); d <= hi; d++ {
		f := uint16(0xFFFF - d - rest&0xFFFF) // low half of the sum becomes 0xFFFF - d
		rd := ref.DNSKEYRdata(f, 3, alg, keyOct)
		if f&0x0100 != 0 && tagFoldCarries(rd) && ref.KeyTag(rd) != 0 {
			cands = append(cands, f)
		}
	}
	if len(cands) == 0 {
		return 0, false
	}
	return cands[((pick%len(cands))+len(cands))%len(cands)], true
}

// ---------------------------------------------------------------------------------------------
// Round 9 (b): label OCTETS that read like an escape sequence.
//
// "escaped names": a label may contain the backslash octet itself, followed by digits or by any
// other octet. In the presentation form the library works on, the backslash is then written `\\`
// and what follows it is ordinary text: the four-octet label \065 is written `\\065` and is neither
// the letter A nor anything that has a letter case; the two octets \. are written `\\\.`. Code
// that scans the text for escapes without consuming the escaped character takes the second
// backslash for the start of a new escape. The fragments below are what such code can trip over;
// they are put into the labels of the zone (signer, key owner), of the owner and of RDATA names.

func escapeLookalike(t *rapid.T) []byte {
	ddd := func() []byte {
		var v int
		switch rapid.IntRange(0, 4).Draw(t, "lookv") {
		case 0:
			v = rapid.IntRange('A', 'Z').Draw(t, "lookupper")
		case 1:
			v = rapid.IntRange('a', 'z').Draw(t, "looklower")
		case 2:
			v = rapid.SampledFrom([]int{0, 32, 42, 46, 64, 91, 92, 96, 123, 255}).Draw(t, "lookedge")
		case 3:
			v = rapid.IntRange(0, 255).Draw(t, "lookany")
		default:
			v = rapid.IntRange(256, 999).Draw(t, "lookbig")
		}
		return []byte(fmt.Sprintf("%03d", v))
	}
	switch rapid.IntRange(0, 7).Draw(t, "lookk") {
	case 0, 1, 2: // the octets \ D D D
		return append([]byte{'\\'}, ddd()...)
	case 3: // \ \ D D D
		return append([]byte{'\\', '\\'}, ddd()...)
	case 4: // \ and one octet that the text escapes or that has a letter case
		return []byte{'\\', rapid.SampledFrom([]byte{'.', '\\', '"', ';', '(', '@', '$', ' ', 'a', 'Z', 'x', '*', '7'}).Draw(t, "lookc")}
	case 5: // \ D D and something else: not a \DDD escape even as text
		d := ddd()
		return []byte{'\\', d[0], d[1], rapid.SampledFrom([]byte{'a', 'Z', '.', '\\', '-'}).Draw(t, "looktail")}
	case 6: // \DDD twice in a row
		return append(append([]byte{'\\'}, ddd()...), append([]byte{'\\'}, ddd()...)...)
	default: // a lone backslash octet
		return []byte{'\\'}
	}
}

// withLookalike puts frag into label l (front, back or middle, chosen by where); the result is at
// most 63 octets long.
func withLookalike(l, frag []byte, where int) []byte {
	var out []byte
	switch ((where % 3) + 3) % 3 {
	case 0:
		out = append(append(out, frag...), l...)
	case 1:
		out = append(append(out, l...), frag...)
	default:
		out = append(append(append(out, l[:len(l)/2]...), frag...), l[len(l)/2:]...)
	}
	if len(out) > 63 {
		out = out[:63]
	}
	return out
}

// hasLookalike reports whether a name contains the backslash octet followed by a digit, a letter, a
// dot or another backslash (evidence class).
func hasLookalike(n wm.Name) bool {
	for _, l := range n {
		for i, b := range l {
			if b != '\\' || i+1 == len(l) {
				continue
			}
			c := l[i+1]
			if c >= '0' && c <= '9' || isLetter(c) || c == '.' || c == '\\' {
				return true
			}
		}
	}
	return false
}

// hasBackslashLetterCode: the backslash octet followed by the three digits of a letter's code.
func hasBackslashLetterCode(n wm.Name) bool {
	for _, l := range n {
		for i := 0; i+3 < len(l); i++ {
			if l[i] != '\\' {
				continue
			}
			d := l[i+1 : i+4]
			if d[0] < '0' || d[0] > '9' || d[1] < '0' || d[1] > '9' || d[2] < '0' || d[2] > '9' {
				continue
			}
			if v := int(d[0]-'0')*100 + int(d[1]-'0')*10 + int(d[2]-'0'); v < 256 && isLetter(byte(v)) {
				return true
			}
		}
	}
	return false
}
