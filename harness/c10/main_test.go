package c10

import (
	"testing"

	"verif/harness/pbt"
)

func init() { pbt.Property("C10") }

func TestMain(m *testing.M)   { pbt.Main(m) }
func TestProps(t *testing.T)  { pbt.RunAll(t) }
func TestReplay(t *testing.T) { pbt.ReplayAll(t) }
