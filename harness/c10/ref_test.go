package c10

import (
	"bytes"
	"encoding/base64"
	"encoding/binary"
	"errors"
	"fmt"
	"reflect"
	"sort"
	"strings"

	"github.com/miekg/dns"

	ref "verif/harness/refcrypto"
	wm "verif/harness/wiremodel"
)

// ---------------------------------------------------------------------------------------------
// The reference side: RFC 4034 3.1.8.1 / section 6 canonical octet string, built from the
// harness's own uncompressed encoder (wm.EncodeRdata), and the complete acceptance predicate of
// the property (key is a zone key with protocol 3 whose tag / algorithm / class / name match the
// RRSIG; RRset matches the RRSIG's owner, class and covered type; signature valid).

// lowerTypes is the list of RFC 4034 6.2 (3) as amended by RFC 6840 5.1: the types whose RDATA
// domain names are folded to lower case. HINFO is in the RFC's list but has no names; NSEC was
// removed by RFC 6840; RRSIG is never part of a signed RRset; A6 is not implemented anywhere.
var lowerTypes = map[uint16]bool{
	wm.TNS: true, wm.TMD: true, wm.TMF: true, wm.TCNAME: true, wm.TSOA: true, wm.TMB: true, wm.TMG: true, wm.TMR: true,
	wm.TPTR: true, wm.TMINFO: true, wm.TMX: true, wm.TRP: true, wm.TAFSDB: true, wm.TRT: true, wm.TSIG: true, wm.TPX: true,
	wm.TNXT: true, wm.TNAPTR: true, wm.TKX: true, wm.TSRV: true, wm.TDNAME: true,
}

func cloneRec(r wm.Rec) wm.Rec {
	x := r
	x.Name = r.Name.Clone()
	x.Fields = nil
	for _, f := range r.Fields {
		g := f
		g.N = f.N.Clone()
		g.NL = nil
		for _, n := range f.NL {
			g.NL = append(g.NL, n.Clone())
		}
		g.B = append([]byte(nil), f.B...)
		g.B2 = append([]byte(nil), f.B2...)
		g.L = nil
		for _, s := range f.L {
			g.L = append(g.L, append([]byte(nil), s...))
		}
		g.T = append([]uint16(nil), f.T...)
		g.APL = append([]wm.APLItem(nil), f.APL...)
		g.Opts = append([]wm.Option(nil), f.Opts...)
		x.Fields = append(x.Fields, g)
	}
	return x
}

func cloneSet(s []wm.Rec) []wm.Rec {
	o := make([]wm.Rec, len(s))
	for i, r := range s {
		o[i] = cloneRec(r)
	}
	return o
}

// hasNames reports whether the record carries a domain name in its RDATA.
func hasNames(r wm.Rec) bool {
	for _, f := range r.Fields {
		switch f.K {
		case wm.NameC, wm.NameU:
			return true
		case wm.Names:
			if len(f.NL) > 0 {
				return true
			}
		case wm.GW:
			if f.U == 3 {
				return true
			}
		}
	}
	return false
}

// mapNames applies fn to every domain name in the RDATA of r (in place).
func mapNames(r *wm.Rec, fn func(wm.Name) wm.Name) {
	for i := range r.Fields {
		f := &r.Fields[i]
		switch f.K {
		case wm.NameC, wm.NameU:
			f.N = fn(f.N)
		case wm.Names:
			for j := range f.NL {
				f.NL[j] = fn(f.NL[j])
			}
		case wm.GW:
			if f.U == 3 {
				f.N = fn(f.N)
			}
		}
	}
}

// canonRdata is the RDATA in canonical form: uncompressed, names lower-cased for the 6.2 types.
func canonRdata(r wm.Rec) []byte {
	x := cloneRec(r)
	if lowerTypes[r.Type] {
		mapNames(&x, func(n wm.Name) wm.Name { return n.Lower() })
	}
	return wm.EncodeRdata(x)
}

// sigFields are the RRSIG RDATA fields that precede the signature.
type sigFields struct {
	TypeCovered uint16
	Alg         uint8
	Labels      uint8
	OrigTTL     uint32
	Expiration  uint32
	Inception   uint32
	KeyTag      uint16
	Signer      wm.Name
}

// world is everything Verify looks at, as plain values.
type world struct {
	Set       []wm.Rec // the RRset as handed to Verify (order, duplicates, TTLs, case as given)
	SigOwner  wm.Name  // owner, class, TTL of the RRSIG record itself
	SigClass  uint16
	SigTTL    uint32
	F         sigFields
	Signature []byte
	KeyOwner  wm.Name
	KeyClass  uint16
	KeyFlags  uint16
	KeyProto  uint8
	KeyAlg    uint8
	KeyOctets []byte
	// text-level alterations: when set, the library gets this string as the Signature / PublicKey
	// field instead of the canonical base64 of the octets above, and the reference decodes it the
	// strict RFC 4648 way (a string that does not decode is not a signature / key at all)
	SigText *string
	KeyText *string
	// raw spellings of names for the library side (octets >= 0x80 written as they are instead of
	// \DDD); the label fields above always hold what the text denotes
	KeyOwnerText *string
	SigOwnerText *string
	SignerText   *string
	// letters written as \DDD escapes in the names handed to the library (round 7): per site a mask,
	// bit (i mod 64) set = the i-th octet of the name, if it is an ASCII letter, is written \DDD.
	// Every spelling denotes the same octets, so the reference side never looks at this.
	Spell spelling
}

// spelling says which letters of which names reach the library as \DDD escapes ("\065" for "A").
// Only letters are ever spelled that way: the class is "a letter that the text-level case folding
// (CanonicalName / strings.ToLower / equal) does not recognise as one".
type spelling struct {
	Owner    uint64 // owner of every record of the RRset
	SigOwner uint64 // owner of the RRSIG (for Sign: copied from the first record by Sign itself)
	Signer   uint64 // signer name in the RRSIG
	KeyOwner uint64 // owner of the DNSKEY
	Rdata    uint64 // every domain name in the RDATA of the records
	// round 10: HOW a selected octet is written (see spellNameStyle). 0: letters as \DDD (round 7);
	// styleBackslashLetter: letters with a backslash in front (`w\ww`); styleAnyDDD: every selected
	// octet, letter or not, as \DDD (`w\045w` for "w-w", `\049` for "1")
	Style int `json:",omitempty"`
}

const (
	styleLetterDDD       = 0
	styleBackslashLetter = 1
	styleAnyDDD          = 2
)

func (s spelling) any() bool { return s.Owner|s.SigOwner|s.Signer|s.KeyOwner|s.Rdata != 0 }

// name is the presentation form of n at a site with the given mask, in the style of the case.
func (s spelling) name(n wm.Name, mask uint64) string { return spellNameStyle(n, mask, s.Style) }

func isLetter(b byte) bool { return b >= 'a' && b <= 'z' || b >= 'A' && b <= 'Z' }

// spellName is the presentation form of n with the letters selected by mask written as \DDD.
func spellName(n wm.Name, mask uint64) string { return spellNameStyle(n, mask, styleLetterDDD) }

// spellNameStyle: the octets selected by mask are written as \DDD if they are letters (style 0), as
// a backslash and the letter itself (styleBackslashLetter: RFC 1035 5.1 "\X where X is any character
// other than a digit"), or as \DDD whatever they are (styleAnyDDD). Every spelling denotes the same
// octets.
func spellNameStyle(n wm.Name, mask uint64, style int) string {
	if mask == 0 || len(n) == 0 {
		return wm.EscName(n)
	}
	var sb strings.Builder
	i := 0
	for _, l := range n {
		for _, b := range l {
			sel := mask>>(uint(i)%64)&1 == 1
			switch {
			case sel && style == styleBackslashLetter && isLetter(b):
				sb.WriteByte('\\')
				sb.WriteByte(b)
			case sel && (style == styleAnyDDD || style == styleLetterDDD && isLetter(b)):
				fmt.Fprintf(&sb, "\\%03d", b)
			default:
				sb.WriteString(wm.EscLabel([]byte{b}))
			}
			i++
		}
		sb.WriteByte('.')
	}
	return sb.String()
}

// spelledLetters reports whether mask selects a letter of n (upper: an upper-case one).
func spelledLetters(n wm.Name, mask uint64, upper bool) bool {
	i := 0
	for _, l := range n {
		for _, b := range l {
			if mask>>(uint(i)%64)&1 == 1 && (b >= 'A' && b <= 'Z' || !upper && b >= 'a' && b <= 'z') {
				return true
			}
			i++
		}
	}
	return false
}

// respellRdata rewrites every domain name field of rr (struct tags dns:"domain-name" /
// dns:"cdomain-name", strings and string lists) with spellName.
func respellRdata(rr dns.RR, mask uint64, style int) {
	v := reflect.ValueOf(rr)
	if v.Kind() != reflect.Pointer || v.Elem().Kind() != reflect.Struct {
		return
	}
	respellStruct(v.Elem(), mask, style)
}

func respellStruct(v reflect.Value, mask uint64, style int) {
	t := v.Type()
	for i := 0; i < t.NumField(); i++ {
		f, fv := t.Field(i), v.Field(i)
		if f.Name == "Hdr" || !fv.CanSet() {
			continue
		}
		if f.Anonymous && fv.Kind() == reflect.Struct {
			respellStruct(fv, mask, style)
			continue
		}
		if tag := f.Tag.Get("dns"); tag != "domain-name" && tag != "cdomain-name" {
			continue
		}
		re := func(s string) string {
			if n, _, err := wm.UnescName(s); err == nil && len(n) > 0 {
				return spellNameStyle(n, mask, style)
			}
			return s
		}
		switch fv.Kind() {
		case reflect.String:
			fv.SetString(re(fv.String()))
		case reflect.Slice:
			if fv.Type().Elem().Kind() == reflect.String {
				for j := 0; j < fv.Len(); j++ {
					fv.Index(j).SetString(re(fv.Index(j).String()))
				}
			}
		}
	}
}

// rawEsc is the presentation form with octets >= 0x80 left raw (a legal spelling: the escape is
// only needed for octets that are special or unprintable in ASCII).
func rawEsc(n wm.Name) string {
	if len(n) == 0 {
		return "."
	}
	var sb strings.Builder
	for _, l := range n {
		for _, b := range l {
			switch {
			case b >= 0x80:
				sb.WriteByte(b)
			default:
				sb.WriteString(wm.EscLabel([]byte{b}))
			}
		}
		sb.WriteByte('.')
	}
	return sb.String()
}

func (w world) clone() world {
	x := w
	x.Set = cloneSet(w.Set)
	x.SigOwner, x.F.Signer, x.KeyOwner = w.SigOwner.Clone(), w.F.Signer.Clone(), w.KeyOwner.Clone()
	x.Signature = append([]byte(nil), w.Signature...)
	x.KeyOctets = append([]byte(nil), w.KeyOctets...)
	return x
}

func equalFold(a, b wm.Name) bool { return a.Lower().Equal(b.Lower()) }

// signedData is RRSIG_RDATA | RR(1) | RR(2) ... of RFC 4034 3.1.8.1.
func signedData(set []wm.Rec, f sigFields) ([]byte, error) {
	if len(set) == 0 {
		return nil, errors.New("empty RRset")
	}
	var d []byte
	d = binary.BigEndian.AppendUint16(d, f.TypeCovered)
	d = append(d, f.Alg, f.Labels)
	d = binary.BigEndian.AppendUint32(d, f.OrigTTL)
	d = binary.BigEndian.AppendUint32(d, f.Expiration)
	d = binary.BigEndian.AppendUint32(d, f.Inception)
	d = binary.BigEndian.AppendUint16(d, f.KeyTag)
	d = append(d, wm.EncodeName(f.Signer.Lower())...)
	owner := set[0].Name.Lower()
	if int(f.Labels) > len(owner) {
		return nil, errors.New("Labels exceeds the owner's label count")
	}
	if int(f.Labels) < len(owner) {
		// RFC 4035 5.3.2: the rightmost Labels labels with "*" in front
		owner = append(wm.Name{[]byte("*")}, owner[len(owner)-int(f.Labels):]...)
	}
	if !owner.Valid() {
		return nil, errors.New("owner has no wire form")
	}
	var rds [][]byte
	for _, r := range set {
		rd := canonRdata(r)
		if len(rd) > 65535 {
			return nil, errors.New("RDATA too long")
		}
		rds = append(rds, rd)
	}
	sort.Slice(rds, func(i, j int) bool { return bytes.Compare(rds[i], rds[j]) < 0 }) // 6.3: RDATA as left-justified unsigned octet strings
	on := wm.EncodeName(owner)
	for i, rd := range rds {
		if i > 0 && bytes.Equal(rd, rds[i-1]) {
			continue // 6.3: duplicates are not allowed; treat as one
		}
		d = append(d, on...)
		d = binary.BigEndian.AppendUint16(d, set[0].Type)
		d = binary.BigEndian.AppendUint16(d, set[0].Class)
		d = binary.BigEndian.AppendUint32(d, f.OrigTTL)
		d = binary.BigEndian.AppendUint16(d, uint16(len(rd)))
		d = append(d, rd...)
	}
	return d, nil
}

func (w world) keyRdata() []byte {
	return ref.DNSKEYRdata(w.KeyFlags, w.KeyProto, w.KeyAlg, w.KeyOctets)
}

// refVerify is the acceptance predicate of the property statement; nil = valid.
func (w world) refVerify() error {
	if w.SigText != nil {
		b, err := ref.StrictBase64(*w.SigText)
		if err != nil {
			return err
		}
		w.Signature = b
	}
	if w.KeyText != nil {
		b, err := ref.StrictBase64(*w.KeyText)
		if err != nil {
			return err
		}
		w.KeyOctets = b
	}
	if len(w.Set) == 0 {
		return errors.New("empty RRset")
	}
	for _, r := range w.Set[1:] {
		if r.Type != w.Set[0].Type || r.Class != w.Set[0].Class || !equalFold(r.Name, w.Set[0].Name) {
			return errors.New("records do not form an RRset")
		}
	}
	if w.KeyFlags&0x0100 == 0 {
		return errors.New("key is not a zone key")
	}
	if w.KeyProto != 3 {
		return errors.New("key protocol is not 3")
	}
	if w.KeyAlg != w.F.Alg {
		return errors.New("key algorithm differs")
	}
	if w.KeyClass != w.SigClass {
		return errors.New("key class differs")
	}
	if !equalFold(w.KeyOwner, w.F.Signer) {
		return errors.New("key owner is not the signer")
	}
	if ref.KeyTag(w.keyRdata()) != w.F.KeyTag {
		return errors.New("key tag differs")
	}
	if w.Set[0].Type != w.F.TypeCovered || w.Set[0].Class != w.SigClass || !equalFold(w.Set[0].Name, w.SigOwner) {
		return errors.New("RRset does not match the RRSIG's owner / class / covered type")
	}
	data, err := signedData(w.Set, w.F)
	if err != nil {
		return err
	}
	pub, err := ref.ParseKeyOctets(w.KeyAlg, w.KeyOctets)
	if err != nil {
		return err
	}
	return ref.VerifySig(w.KeyAlg, pub, data, w.Signature)
}

// ---------------------------------------------------------------------------------------------
// the library side

// wireBorn is the library value obtained by unpacking the harness encoding of r.
func wireBorn(r wm.Rec) (dns.RR, error) {
	b, err := wm.EncodeRR(r)
	if err != nil {
		return nil, err
	}
	rr, off, err := dns.UnpackRR(b, 0)
	if err != nil {
		return nil, err
	}
	if off != len(b) {
		return nil, fmt.Errorf("UnpackRR consumed %d of %d octets", off, len(b))
	}
	return rr, nil
}

func (w world) libSet() ([]dns.RR, error) {
	var out []dns.RR
	for _, r := range w.Set {
		rr, err := wireBorn(r)
		if err != nil {
			return nil, err
		}
		if w.Spell.Owner != 0 {
			rr.Header().Name = w.Spell.name(r.Name, w.Spell.Owner)
		}
		if w.Spell.Rdata != 0 {
			respellRdata(rr, w.Spell.Rdata, w.Spell.Style)
		}
		out = append(out, rr)
	}
	return out, nil
}

func (w world) libKey() *dns.DNSKEY {
	if w.KeyOwnerText != nil {
		x := w
		x.KeyOwnerText = nil
		k := x.libKey()
		k.Hdr.Name = *w.KeyOwnerText
		return k
	}
	if w.KeyText != nil {
		return &dns.DNSKEY{Hdr: dns.RR_Header{Name: w.Spell.name(w.KeyOwner, w.Spell.KeyOwner), Rrtype: dns.TypeDNSKEY, Class: w.KeyClass, Ttl: 3600},
			Flags: w.KeyFlags, Protocol: w.KeyProto, Algorithm: w.KeyAlg, PublicKey: *w.KeyText}
	}
	return &dns.DNSKEY{Hdr: dns.RR_Header{Name: w.Spell.name(w.KeyOwner, w.Spell.KeyOwner), Rrtype: dns.TypeDNSKEY, Class: w.KeyClass, Ttl: 3600},
		Flags: w.KeyFlags, Protocol: w.KeyProto, Algorithm: w.KeyAlg, PublicKey: base64.StdEncoding.EncodeToString(w.KeyOctets)}
}

func (w world) libSig() *dns.RRSIG {
	if w.SigOwnerText != nil || w.SignerText != nil {
		x := w
		x.SigOwnerText, x.SignerText = nil, nil
		r := x.libSig()
		if w.SigOwnerText != nil {
			r.Hdr.Name = *w.SigOwnerText
		}
		if w.SignerText != nil {
			r.SignerName = *w.SignerText
		}
		return r
	}
	if w.SigText != nil {
		x := w
		x.SigText = nil
		r := x.libSig()
		r.Signature = *w.SigText
		return r
	}
	return &dns.RRSIG{Hdr: dns.RR_Header{Name: w.Spell.name(w.SigOwner, w.Spell.SigOwner), Rrtype: dns.TypeRRSIG, Class: w.SigClass, Ttl: w.SigTTL},
		TypeCovered: w.F.TypeCovered, Algorithm: w.F.Alg, Labels: w.F.Labels, OrigTtl: w.F.OrigTTL, Expiration: w.F.Expiration,
		Inception: w.F.Inception, KeyTag: w.F.KeyTag, SignerName: w.Spell.name(w.F.Signer, w.Spell.Signer), Signature: base64.StdEncoding.EncodeToString(w.Signature)}
}

// libVerify runs RRSIG.Verify on library values built from w. A world whose records cannot even be
// decoded by the library counts as rejected.
func (w world) libVerify() error {
	set, err := w.libSet()
	if err != nil {
		return fmt.Errorf("not decodable: %w", err)
	}
	return w.libSig().Verify(w.libKey(), set)
}
