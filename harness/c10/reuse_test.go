package c10

import (
	"encoding/base64"
	"fmt"

	"github.com/miekg/dns"
	"pgregory.net/rapid"

	"verif/harness/gen"
	"verif/harness/pbt"
	ref "verif/harness/refcrypto"
	wm "verif/harness/wiremodel"
)

// ---------------------------------------------------------------------------------------------
// One RRSIG value used for several Sign calls in a row (a signer that walks a zone with a template
// record), and Sign called on a template whose derived fields already hold something (copied or
// parsed from another RRSIG). Sign is documented to take Inception, Expiration, KeyTag, SignerName,
// Algorithm (and a non-zero OrigTtl) from the record and to copy "the rest" from the RRset: after
// every call the record must describe *this* RRset - owner, class, type covered, RFC label count -
// and verify with the library and with the reference.

type reuseCase struct {
	Sets     [][]wm.Rec // 1..4 RRsets under one zone, each with one owner / class / type
	Signer   wm.Name
	Alg      uint8
	KeySlot  int
	KeySeed  []byte
	KeyFlags uint16
	Incep    uint32
	Expir    uint32
	OrigTTL  uint32 // 0: taken from the first RRset by the first call (and then kept: documented "used as-is")
	// what the template holds before the first call in the fields Sign has to fill
	PreLabels uint8
	PreType   uint16
	PreOwner  wm.Name
	PreClass  uint16
	PreSig    []byte
}

func checkReuse(c reuseCase) error {
	if len(c.Sets) == 0 || len(c.Sets) > 4 || c.KeyFlags&0x0100 == 0 || !c.PreOwner.Valid() {
		return nil
	}
	priv, err := privFor(c.Alg, c.KeySlot, c.KeySeed)
	if err != nil {
		return nil
	}
	for _, set := range c.Sets {
		sc := sigCase{Set: set, Signer: c.Signer, SignerAs: c.Signer, KeyOwner: c.Signer, KeyFlags: c.KeyFlags}
		if !sc.valid() || (len(set[0].Name) > 0 && set[0].Name[0][0] == '*' && !isWild(set[0].Name)) {
			return nil // owners like "*abc" are outside what is asserted about Labels (DESIGN)
		}
	}
	keyOct, _ := ref.KeyOctets(c.Alg, ref.PublicOf(priv))
	class := c.Sets[0][0].Class
	kw := world{KeyOwner: c.Signer, KeyClass: class, KeyFlags: c.KeyFlags, KeyProto: 3, KeyAlg: c.Alg, KeyOctets: keyOct}
	tag := ref.KeyTag(kw.keyRdata())
	if tag == 0 {
		return nil
	}
	labelCounts := map[int]bool{}
	lookalike := false
	for _, set := range c.Sets {
		lookalike = lookalike || hasLookalike(set[0].Name)
		n := len(set[0].Name)
		if isWild(set[0].Name) {
			n--
		}
		labelCounts[n] = true
	}
	pbt.Note([]byte(fmt.Sprintf("%v|%d|%d|%x|%d|%d", c.Sets, c.Alg, c.KeySlot, c.KeySeed, c.PreLabels, c.OrigTTL)), len(c.Sets) >= 2 || c.PreLabels != 0,
		fmt.Sprintf("rrsets=%d", len(c.Sets)), fmt.Sprintf("distinct-label-counts=%d", len(labelCounts)), fmt.Sprintf("prelabels-set=%v", c.PreLabels != 0), fmt.Sprintf("alg=%d", c.Alg),
		fmt.Sprintf("keytag-fold-carries=%v", tagFoldCarries(kw.keyRdata())), fmt.Sprintf("octets-that-read-like-an-escape=%v", lookalike))

	sig := &dns.RRSIG{Hdr: dns.RR_Header{Name: wm.EscName(c.PreOwner), Rrtype: dns.TypeRRSIG, Class: c.PreClass, Ttl: 7},
		TypeCovered: c.PreType, Labels: c.PreLabels, Signature: base64.StdEncoding.EncodeToString(c.PreSig),
		Inception: c.Incep, Expiration: c.Expir, KeyTag: tag, SignerName: wm.EscName(c.Signer), Algorithm: c.Alg, OrigTtl: c.OrigTTL}
	wantTTL := c.OrigTTL
	for i, set := range c.Sets {
		if set[0].Class != class {
			return nil
		}
		w := kw
		w.Set = cloneSet(set)
		libSet, lerr := w.libSet()
		if lerr != nil {
			return nil
		}
		if serr := sig.Sign(ref.RandCheckedSigner{Inner: ref.DetSigner{Key: priv}}, libSet); serr != nil {
			return pbt.Errf("call %d of Sign on one RRSIG value failed: %v (owner %s)", i+1, serr, wm.EscName(set[0].Name))
		}
		if wantTTL == 0 {
			wantTTL = set[0].TTL // the first call fills it in; later calls find it set and keep it, as documented
		}
		owner := set[0].Name
		wantLabels := len(owner)
		if isWild(owner) {
			wantLabels--
		}
		if int(sig.Labels) != wantLabels || sig.TypeCovered != set[0].Type || sig.Hdr.Class != class || sig.OrigTtl != wantTTL {
			return pbt.Errf("call %d of Sign on one RRSIG value (owner %s, %d labels; template held Labels=%d before the first call): RRSIG now says labels %d type %d class %d origttl %d, want %d %d %d %d",
				i+1, wm.EscName(owner), len(owner), c.PreLabels, sig.Labels, sig.TypeCovered, sig.Hdr.Class, sig.OrigTtl, wantLabels, set[0].Type, class, wantTTL)
		}
		if l, e := labelsOfText(sig.Hdr.Name); e != nil || !equalFold(l, owner) {
			return pbt.Errf("call %d of Sign: RRSIG owner is %q, RRset owner %s", i+1, sig.Hdr.Name, wm.EscName(owner))
		}
		raw, derr := base64.StdEncoding.DecodeString(sig.Signature)
		if derr != nil {
			return pbt.Errf("call %d of Sign left a signature that is not base64", i+1)
		}
		w.SigOwner, w.SigClass, w.SigTTL = owner, class, sig.OrigTtl
		w.F = sigFields{TypeCovered: sig.TypeCovered, Alg: sig.Algorithm, Labels: sig.Labels, OrigTTL: sig.OrigTtl, Expiration: sig.Expiration, Inception: sig.Inception, KeyTag: sig.KeyTag, Signer: c.Signer}
		w.Signature = raw
		if rerr := w.refVerify(); rerr != nil {
			return pbt.Errf("call %d of Sign on one RRSIG value: the reference rejects the signature: %v (owner %s labels %d)", i+1, rerr, wm.EscName(owner), sig.Labels)
		}
		if verr := sig.Verify(w.libKey(), libSet); verr != nil {
			return pbt.Errf("call %d of Sign on one RRSIG value: Verify rejects the signature just made: %v (owner %s labels %d)", i+1, verr, wm.EscName(owner), sig.Labels)
		}
		pbt.Class("sign-call")
	}
	return nil
}

func labelsOfText(s string) (wm.Name, error) {
	n, _, err := wm.UnescName(s)
	return n, err
}

func genReuse(t *rapid.T) reuseCase {
	c := reuseCase{}
	no := gen.NameOpts{MaxLabs: 2, MaxLabel: 8, Plain: rapid.IntRange(0, 2).Draw(t, "plain") > 0}
	zone := gen.Name(t, no)
	look := rapid.IntRange(0, 3).Draw(t, "lookalike") == 0 // round 9: octets that read like an escape (escapeLookalike)
	if look && len(zone) > 0 && rapid.Bool().Draw(t, "lookzone") {
		zone[0] = withLookalike(zone[0], escapeLookalike(t), rapid.IntRange(0, 2).Draw(t, "lookwhere"))
	}
	c.Signer = zone
	class := rapid.SampledFrom([]uint16{1, 1, 1, 3, 254}).Draw(t, "class")
	n := rapid.IntRange(1, 4).Draw(t, "nsets")
	for i := 0; i < n; i++ {
		// owners with different numbers of labels below the zone, some of them wildcards
		var sub wm.Name
		for j, k := 0, rapid.IntRange(0, 4).Draw(t, "sublabels"); j < k; j++ {
			l := gen.Label(t, no)
			if look && rapid.IntRange(0, 2).Draw(t, "looksub") == 0 {
				l = withLookalike(l, escapeLookalike(t), rapid.IntRange(0, 2).Draw(t, "lookwhere"))
			}
			if l[0] == '*' {
				l[0] = 'x'
			}
			sub = append(sub, l)
		}
		if rapid.IntRange(0, 3).Draw(t, "wild") == 0 {
			sub = append(wm.Name{[]byte("*")}, sub...)
		}
		owner := append(sub, zone.Clone()...)
		if !owner.Valid() {
			owner = zone.Clone()
		}
		typ := rapid.SampledFrom([]uint16{wm.TA, wm.TAAAA, wm.TNS, wm.TMX, wm.TTXT, wm.TSRV}).Draw(t, "type")
		var set []wm.Rec
		for j, k := 0, rapid.IntRange(1, 3).Draw(t, "nrec"); j < k; j++ {
			r := gen.RecOfType(t, typ, &gen.Opts{Level: gen.WireValid, MaxBlob: 16})
			r.Name, r.Class = owner.Clone(), class
			r.TTL = rapid.Uint32().Draw(t, "ttl")
			set = append(set, r)
		}
		c.Sets = append(c.Sets, set)
	}
	c.Alg = rapid.SampledFrom(algs).Draw(t, "alg")
	c.KeySlot = rapid.IntRange(0, ref.RSAPoolSize()-1).Draw(t, "slot")
	c.KeySeed = rapid.SliceOfN(rapid.Byte(), 1, 16).Draw(t, "seed")
	c.KeyFlags = 0x0100 | uint16(rapid.IntRange(0, 1).Draw(t, "sep"))
	if rapid.IntRange(0, 7).Draw(t, "tagcarry") == 0 {
		// round 9: a key whose tag computation is in the carrying case (flagsForTagCarry)
		pick := rapid.IntRange(0, 1<<12).Draw(t, "tagcarrypick")
		if priv, err := privFor(c.Alg, c.KeySlot, c.KeySeed); err == nil {
			if oct, err := ref.KeyOctets(c.Alg, ref.PublicOf(priv)); err == nil {
				if f, ok := flagsForTagCarry(c.Alg, oct, pick); ok {
					c.KeyFlags = f
				}
			}
		}
	}
	c.Incep, c.Expir = rapid.Uint32().Draw(t, "incep"), rapid.Uint32().Draw(t, "expir")
	if rapid.Bool().Draw(t, "explicitttl") {
		c.OrigTTL = rapid.Uint32Range(1, 1<<32-1).Draw(t, "origttl")
	}
	// the template before the first call
	if rapid.Bool().Draw(t, "prefilled") {
		c.PreLabels = uint8(rapid.IntRange(0, 12).Draw(t, "prelabels"))
		c.PreType = rapid.SampledFrom([]uint16{0, 1, 2, 46, 65535}).Draw(t, "pretype")
		c.PreOwner = gen.Name(t, no)
		c.PreClass = rapid.SampledFrom([]uint16{0, 1, 255}).Draw(t, "preclass")
		c.PreSig = rapid.SliceOfN(rapid.Byte(), 0, 8).Draw(t, "presig")
	}
	return c
}

func init() {
	pbt.Register(pbt.Sub[reuseCase]{Name: "sign-on-reused-rrsig", Weight: 3, Gen: genReuse, Check: checkReuse})
}
