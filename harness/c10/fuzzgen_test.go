package c10

import (
	"testing"

	"verif/harness/pbt"
)

// FuzzGen: coverage-guided search over the generators of this package (see pbt.FuzzGen).
// large-rrset is left out: one of its cases (hundreds of records, a dozen Verify calls over 64 KiB
// and more of signed data) costs 0.2 - 1 s natively, and in an instrumented build with 16 workers
// on a loaded machine it exceeds the 10 s the Go fuzz worker gives one input ("fuzzing process hung
// or terminated unexpectedly", round 10: two campaigns of two). Its class is a matter of size, which
// the generator reaches by construction, not of a rarely taken branch.
func FuzzGen(f *testing.F) { pbt.FuzzGen(f, "large-rrset") }
