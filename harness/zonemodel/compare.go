package zonemodel

import (
	"fmt"
	"reflect"

	"github.com/miekg/dns"

	wm "verif/harness/wiremodel"
)

// CompareRec checks one parsed record against the expectation: owner as wire labels, class, TTL,
// type, then the RDATA field by field (after Normalize).
func CompareRec(got dns.RR, want *ExpRec) error {
	if got == nil {
		return fmt.Errorf("nil record")
	}
	h := got.Header()
	n, fq, err := wm.UnescName(h.Name)
	if err != nil {
		return fmt.Errorf("owner %q does not parse: %v", h.Name, err)
	}
	if !fq {
		return fmt.Errorf("owner %q is not absolute", h.Name)
	}
	if !n.Equal(want.Owner) {
		return fmt.Errorf("owner %q, want %q", h.Name, wm.EscName(want.Owner))
	}
	if h.Rrtype != want.Type {
		return fmt.Errorf("type %d, want %d", h.Rrtype, want.Type)
	}
	if h.Class != want.Class {
		return fmt.Errorf("class %d, want %d", h.Class, want.Class)
	}
	if len(want.TTLAlts) > 0 {
		ok := false
		for _, v := range want.TTLAlts {
			ok = ok || v == h.Ttl
		}
		if !ok {
			return fmt.Errorf("TTL %d, want one of %v (the file's own state or a value of the text just included / generated)", h.Ttl, want.TTLAlts)
		}
		want = &ExpRec{Owner: want.Owner, TTL: h.Ttl, Class: want.Class, Type: want.Type, RR: withTTL(want.RR, h.Ttl)}
	} else if h.Ttl != want.TTL {
		return fmt.Errorf("TTL %d, want %d", h.Ttl, want.TTL)
	}
	if _, ok := want.RR.(*HeaderOnly); ok {
		return nil
	}
	norm, err := Normalize(got)
	if err != nil {
		return fmt.Errorf("parsed record %v: %v", got, err)
	}
	exp := cloneRR(want.RR)
	normIPs(reflect.ValueOf(exp))
	if reflect.TypeOf(norm) != reflect.TypeOf(exp) {
		return fmt.Errorf("record has Go type %T, want %T", norm, exp)
	}
	if p, ok := exp.(*dns.PrivateRR); ok {
		// PrivateRR carries an unexported constructor; the header is checked above, the payload here
		if q := norm.(*dns.PrivateRR); !reflect.DeepEqual(q.Data, p.Data) {
			return fmt.Errorf("private RDATA differs: got %v want %v", q.Data, p.Data)
		}
		return nil
	}
	if !reflect.DeepEqual(norm, exp) {
		return fmt.Errorf("RDATA differs:\n got  %#v\n want %#v", norm, exp)
	}
	return nil
}

func withTTL(rr dns.RR, ttl uint32) dns.RR {
	c := cloneRR(rr)
	c.Header().Ttl = ttl
	return c
}

// CompareOutcome checks records and final error of a parse against the denotation of a valid
// zone (den.Err == ""): all records and no error, or - where a record may be refused for want
// of a TTL source - the records before it and an error.
func CompareOutcome(got []dns.RR, perr error, den *Denotation) error {
	if perr != nil {
		k := len(got)
		if k < len(den.Recs) && den.Recs[k].MayFail {
			return Compare(got, den.Recs[:k])
		}
		return fmt.Errorf("parser reports %v after %d of %d records", perr, len(got), len(den.Recs))
	}
	return Compare(got, den.Recs)
}

// Compare checks a parsed record list against the denotation.
func Compare(got []dns.RR, want []ExpRec) error {
	for i := range got {
		if i >= len(want) {
			return fmt.Errorf("%d records parsed, %d expected; first extra: %v", len(got), len(want), got[i])
		}
		if err := CompareRec(got[i], &want[i]); err != nil {
			return fmt.Errorf("record %d (%s item %d step %d): %v", i, want[i].File, want[i].Item, want[i].Step, err)
		}
	}
	if len(got) < len(want) {
		w := want[len(got)]
		return fmt.Errorf("%d records parsed, %d expected; first missing: %s item %d (%s type %d)", len(got), len(want), w.File, w.Item, wm.EscName(w.Owner), w.Type)
	}
	return nil
}

// SameRecords is the metamorphic comparison of two parse results (no model involved).
func SameRecords(a, b []dns.RR) error {
	if len(a) != len(b) {
		return fmt.Errorf("%d records vs %d records", len(a), len(b))
	}
	for i := range a {
		x, err := Normalize(a[i])
		if err != nil {
			return fmt.Errorf("record %d of the first rendering: %v", i, err)
		}
		y, err := Normalize(b[i])
		if err != nil {
			return fmt.Errorf("record %d of the second rendering: %v", i, err)
		}
		if px, ok := x.(*dns.PrivateRR); ok {
			if py, ok := y.(*dns.PrivateRR); ok && px.Hdr == py.Hdr && reflect.DeepEqual(px.Data, py.Data) {
				continue
			}
		}
		if !reflect.DeepEqual(x, y) {
			return fmt.Errorf("record %d differs between renderings:\n %#v\n %#v", i, x, y)
		}
	}
	return nil
}
