package zonemodel

import (
	"errors"
	"fmt"
	"math"
	"path"
	"strings"

	"pgregory.net/rapid"

	wm "verif/harness/wiremodel"
)

// GenOpts tunes the zone generator.
type GenOpts struct {
	MaxItems         int  // items of the top-level file (default 10)
	NoIncludes       bool // never generate $INCLUDE
	NoGenerate       bool // never generate $GENERATE
	NoSamples        bool // no records of the "every type" table
	ForceGenerateTTL bool // every $GENERATE states its TTL (known finding generate-ttl)
	// ExcludeSample reports sample names that must not be followed by another line
	// (known finding ipseckey-eats-line); called once per replaced draw.
	LastOnlySamples map[string]bool
	BanSamples      map[string]bool // samples that are never generated
	OnExcluded      func(class string)
	BigGenerate     bool // allow a $GENERATE at the 65 536-step limit
	HostileLabels   bool // labels with arbitrary octets (escapes) in addition to plain ones
	// KeywordLike (optional): directive arguments ($ORIGIN, $INCLUDE origin) must not start with a
	// label for which it returns true (known finding directive-arg-keyword).
	KeywordLike      func(token string) bool
	NoNegativeOffset bool // $GENERATE modifiers only with offsets >= 0
	UncertainTTL     bool // records may omit the TTL right after $INCLUDE / $GENERATE (several acceptable values)
	MissingTTLError  bool // now and then the top-level file ends in a record that omits its TTL with no TTL source at all (expected: error)
	MissingTTLShape  bool // ... but only in the line shape "owner type" when the file has no TTL source
	FixedOptions     bool // parser options as NewRR documents them: origin ".", default TTL 3600
	OnlyGenerate     bool // mostly $GENERATE items (plus $ORIGIN / $TTL and a few records)
	IncludeHeavy     bool // many $INCLUDE items, chains up to the depth limit
	DeepChain        bool // every file that may still include one does: a spine down to the nesting limit
	FlatIncludes     bool // all files in one directory (no directory parts in file names)
}

type zgen struct {
	t     *rapid.T
	o     GenOpts
	z     *Zone
	pool  []wm.Name // names used so far (for shared suffixes / repeated owners)
	nfile int
	long  bool // the zone has a long origin; relative names are long too
}

func (g *zgen) n(k int, label string) int {
	if k <= 1 {
		return 0
	}
	return rapid.IntRange(0, k-1).Draw(g.t, label)
}

func (g *zgen) p(pct int, label string) bool {
	return rapid.IntRange(0, 99).Draw(g.t, label) < pct
}

var plainLabels = []string{"example", "org", "net", "www", "ns1", "ns2", "mail", "a", "b", "sub", "host", "_tcp", "_sip", "*", "x-1",
	"in", "mx", "ns", "ch", "any", "type1", "class1", "1h", "3600", "10", "EXAMPLE", "Www", "arpa", "in-addr", "0", "origin", "ttl", "include", "generate"}

var hostileLabels = []string{"a.b", "a b", "semi;colon", "par(en)", "q\"uote", "back\\slash", "at@sign", "\x00nul", "\xffhigh", "tab\there", "dollar$", "'apos", "d\\065"}

func (g *zgen) label() []byte {
	if g.long && g.n(3, "longlab") == 0 {
		// long labels for zones with a long origin: completed names near the 255-octet limit
		const al = "abcdefghijklmnopqrstuvwxyz0123456789-;. \\\"()@$"
		n := 20 + g.n(44, "lln")
		alpha := 37 // plain
		if g.o.HostileLabels && g.n(2, "llh") == 0 {
			alpha = len(al)
		}
		l := make([]byte, n)
		for i := range l {
			l[i] = al[g.n(alpha, "llc")]
		}
		return l
	}
	k := g.n(10, "labk")
	switch {
	case k < 6:
		return []byte(plainLabels[g.n(len(plainLabels), "pl")])
	case k < 8 && g.o.HostileLabels:
		return []byte(hostileLabels[g.n(len(hostileLabels), "hl")])
	case k == 8 && g.o.HostileLabels:
		// arbitrary octets, short
		n := g.n(6, "ln") + 1
		l := make([]byte, n)
		for i := range l {
			l[i] = byte(g.n(256, "oct"))
		}
		return l
	default:
		const al = "abcdefghijklmnopqrstuvwxyz0123456789-"
		n := g.n(8, "ln") + 1
		if g.n(40, "long") == 0 {
			n = 63
		}
		l := make([]byte, n)
		for i := range l {
			l[i] = al[g.n(len(al), "c")]
		}
		return l
	}
}

// absName draws an absolute name, often sharing a suffix with the origin or an earlier name.
func (g *zgen) absName(origin *wm.Name) wm.Name {
	var base wm.Name
	switch k := g.n(10, "absk"); {
	case k < 5 && origin != nil:
		base = (*origin).Clone()
	case k < 7 && len(g.pool) > 0:
		base = g.pool[g.n(len(g.pool), "pool")].Clone()
		if len(base) > 0 && g.p(50, "cut") {
			base = base[g.n(len(base), "cutn")+1:]
		}
		if g.p(40, "exact") {
			return g.remember(base)
		}
	case k == 7:
		if g.p(30, "root") {
			return wm.Name{}
		}
	}
	lead := g.n(3, "lead")
	if len(base) == 0 && lead == 0 {
		lead = 1
	}
	n := wm.Name{}
	for i := 0; i < lead; i++ {
		n = append(n, g.label())
	}
	n = append(n, base...)
	for !n.Valid() && len(n) > 0 {
		n = n[1:]
	}
	return g.remember(n)
}

func (g *zgen) remember(n wm.Name) wm.Name {
	if len(g.pool) < 12 {
		g.pool = append(g.pool, n.Clone())
	} else {
		g.pool[g.n(len(g.pool), "slot")] = n.Clone()
	}
	return n
}

// name draws a name as written, valid under st.
func (g *zgen) name(st *State, owner bool) MName {
	k := g.n(10, "nk")
	if owner && st.PrevOwner != nil && !st.OwnerUnknown && k < 3 {
		return MName{Kind: Prev}
	}
	if st.Origin != nil {
		switch {
		case k == 3:
			return MName{Kind: At}
		case k < 8:
			// relative: 1..2 labels, must stay within the limits
			for try := 0; try < 4; try++ {
				n := wm.Name{}
				for i := g.n(2, "rl") + 1; i > 0; i-- {
					n = append(n, g.label())
				}
				full := append(n.Clone(), (*st.Origin)...)
				if full.Valid() {
					g.remember(full)
					return RelName(n)
				}
			}
			return MName{Kind: At}
		}
	}
	return AbsName(g.absName(st.Origin))
}

func (g *zgen) ttl() uint32 {
	switch g.n(8, "ttlk") {
	case 0:
		return uint32(g.n(2, "t01"))
	case 1:
		return []uint32{60, 300, 3600, 5400, 86400, 604800, 1209600, 90061, 694861}[g.n(9, "tt")]
	case 2:
		return 2147483647
	case 3:
		return uint32(rapid.Uint32Range(0, 2147483647).Draw(g.t, "tany"))
	default:
		return uint32(g.n(100000, "tsmall"))
	}
}

func (g *zgen) class() uint16 {
	switch g.n(10, "clk") {
	case 0:
		return 3
	case 1:
		return 4
	case 2:
		return uint16(g.n(200, "cl") + 5) // written CLASSnnn
	}
	return 1
}

var txtWords = []string{"hello", "a;b", "c(d)", "e f", "v=spf1 -all", "semi ; colon ( paren ) end", "q\"uote", "back\\slash", "", "@", "$ORIGIN x", "\x00\x01\xff", "tab\there", "it's", "((", "))", " lead", "trail ", "IN A 1.2.3.4", "k=v"}

func (g *zgen) txt() []byte {
	if g.n(8, "txtlong") == 0 {
		n := g.n(255, "txtn") + 1
		if g.n(3, "txtmax") == 0 {
			n = 255
		}
		b := make([]byte, n)
		for i := range b {
			b[i] = "ab ;()\"\\x"[g.n(9, "tc")]
		}
		return b
	}
	return []byte(txtWords[g.n(len(txtWords), "tw")])
}

func (g *zgen) rdata(st *State, t uint16) RData {
	rd := RData{Type: t}
	num := func(max int) uint32 {
		switch g.n(5, "numk") {
		case 0:
			return 0
		case 1:
			return uint32(max)
		}
		return uint32(g.n(max+1, "num"))
	}
	for i := 0; i < NameCount(t); i++ {
		rd.Names = append(rd.Names, g.name(st, false))
	}
	switch t {
	case TA:
		rd.IP = []byte{byte(g.n(256, "ip")), byte(g.n(256, "ip")), byte(g.n(256, "ip")), byte(g.n(256, "ip"))}
	case TAAAA:
		rd.IP = make([]byte, 16)
		switch g.n(4, "v6k") {
		case 0: // all zero / loopback
			rd.IP[15] = byte(g.n(2, "lo"))
		case 1: // documentation prefix with a run of zeros
			copy(rd.IP, []byte{0x20, 0x01, 0x0d, 0xb8})
			rd.IP[15] = byte(g.n(256, "ip"))
			rd.IP[7] = byte(g.n(2, "mid"))
		default:
			for i := range rd.IP {
				rd.IP[i] = byte(g.n(256, "ip"))
			}
			if rd.IP[0] == 0 && rd.IP[1] == 0 {
				rd.IP[0] = 0x20 // keep clear of the IPv4-mapped/compatible text forms
			}
		}
	case TMX:
		rd.Nums = []uint32{num(65535)}
	case TSOA:
		rd.Nums = []uint32{uint32(rapid.Uint32().Draw(g.t, "serial")), g.ttl(), g.ttl(), g.ttl(), g.ttl()}
	case TSRV:
		rd.Nums = []uint32{num(65535), num(65535), num(65535)}
	case TTXT:
		for i := g.n(3, "ntxt") + 1; i > 0; i-- {
			rd.Strs = append(rd.Strs, g.txt())
		}
	case TCAA:
		rd.Nums = []uint32{[]uint32{0, 1, 128, 255}[g.n(4, "flag")]}
		rd.Strs = [][]byte{[]byte([]string{"issue", "issuewild", "iodef", "tag123"}[g.n(4, "tag")]), g.txt()}
	case TDS:
		rd.Nums = []uint32{num(65535), num(255), num(255)}
		rd.Hex = make([]byte, []int{1, 20, 32, 48}[g.n(4, "dl")])
		for i := range rd.Hex {
			rd.Hex[i] = byte(g.n(256, "hx"))
		}
	case TNSEC:
		pool := []uint16{1, 2, 5, 6, 12, 15, 16, 28, 33, 46, 47, 48, 99, 257, 1234, 65280, 65534}
		for _, x := range pool {
			if g.n(3, "bm") == 0 {
				rd.Types = append(rd.Types, x)
			}
		}
	}
	return rd
}

func (g *zgen) record(st *State) Item {
	it := Item{Kind: KRec}
	it.Owner = g.name(st, true)
	_, avail := st.Inherit()
	canOmit := st.TTLAsserted() && avail
	noState := false
	if g.o.UncertainTTL && !st.TTLAsserted() {
		// right after an $INCLUDE / $GENERATE: the TTL may be omitted, the denotation then lists
		// the acceptable values
		c, own := st.TTLCandidates()
		canOmit, noState = len(c) > 0, !own
	}
	if !canOmit || g.p(50, "hasttl") {
		it.HasTTL, it.TTL = true, g.ttl()
		noState = false
	}
	if g.p(50, "hasclass") {
		it.HasClass, it.Class = true, g.class()
	}
	if noState && g.o.MissingTTLShape {
		// a record without any TTL source is only written in the line shape "owner type", which
		// the library refuses; in the other shapes it accepts the record with TTL 0, the
		// repository's own tests rely on that ("@ IN SOA ..." without a default TTL), and the
		// property statement is silent about it
		it.HasClass = false
		if it.Owner.Kind == Prev {
			it.Owner = AbsName(g.absName(st.Origin))
		}
	}
	if !g.o.NoSamples && g.n(8, "sample") == 0 {
		s := Samples[g.n(len(Samples), "si")]
		it.RD = RData{Type: s.Type, Sample: s.Name}
		return it
	}
	t := StructuredTypes[g.n(len(StructuredTypes), "type")]
	it.RD = g.rdata(st, t)
	return it
}

// litName draws plain literal text for a template: labels from a safe alphabet.
func (g *zgen) litLabel() string {
	return []string{"host", "h", "x", "node-", "n", "dhcp-", "a", "r"}[g.n(8, "lit")]
}

func (g *zgen) iterPart(maxOffset int64, allowWidth bool) TPart {
	switch g.n(4, "itk") {
	case 0, 1:
		return TPart{Kind: TIter}
	}
	p := TPart{Kind: TIterMod, NFields: g.n(3, "nf") + 1, Base: "d"}
	if maxOffset > 0 {
		p.Offset = int64(g.n(int(maxOffset)+1, "off"))
		if g.p(25, "negoff") && !g.o.NoNegativeOffset {
			p.Offset = -p.Offset
		}
	}
	if p.NFields >= 2 && allowWidth {
		p.Width = g.n(7, "width")
	}
	if p.NFields == 3 {
		p.Base = []string{"d", "o", "x", "X"}[g.n(4, "base")]
	}
	return p
}

// generate draws a $GENERATE valid under st.
func (g *zgen) generate(st *State) Item {
	gn := &Generate{}
	typ := []uint16{TA, TAAAA, TCNAME, TNS, TPTR, TDNAME, TMX, TTXT}[g.n(8, "gtype")]
	gn.Type = typ
	// range
	huge := false
	switch k := g.n(20, "rk"); {
	case (k == 15 || k == 16) && typ != TA && typ != TAAAA:
		// numbers near the int64 / int32 / 16-bit limits; a few steps that end at or near the
		// largest int64 (the iterator must stop there, not wrap around)
		huge = true
		big := []int64{math.MaxInt64, math.MaxInt64 - 1, math.MaxInt64 - 2, 1 << 62, 1<<62 + 1, 1 << 32, 1<<32 - 1, 1 << 31, 1<<31 - 1, 65536, 65535, 3, 2, 1}
		gn.Start = append(big, 0)[g.n(len(big)+1, "hs")]
		gn.Step = big[g.n(len(big), "hst")]
		gn.Stop = gn.Start
		for j := g.n(5, "hk"); j > 0 && gn.Stop <= math.MaxInt64-gn.Step; j-- {
			gn.Stop += gn.Step
		}
		if room := math.MaxInt64 - gn.Stop; room > 0 && g.p(60, "hslack") {
			slack := gn.Step - 1
			if slack > room {
				slack = room
			}
			if slack > 0 {
				gn.Stop += []int64{1, slack, slack / 2}[g.n(3, "hsl")]
			}
		}
	case (k == 19 || k == 0) && g.o.BigGenerate && typ != TA && typ != TAAAA:
		// exactly the maximal number of steps, any step width, the stop anywhere between the
		// last generated value and the next one
		gn.Start = int64(g.n(8, "bs"))
		gn.Step = []int64{2, 7, 1, 3, 16}[g.n(5, "bst")]
		gn.Stop = gn.Start + 65535*gn.Step + (gn.Step - 1 - int64(g.n(int(gn.Step), "slack")))
	case k >= 17:
		gn.Start = int64(g.n(1000000, "s"))
		gn.Step = int64(g.n(1000, "st") + 1)
		gn.Stop = gn.Start + int64(g.n(int(gn.Step)*6, "len"))
	default:
		gn.Start = int64(g.n(40, "s"))
		gn.Step = int64(g.n(4, "st") + 1)
		gn.Stop = gn.Start + int64(g.n(14, "len"))
	}
	// keep the iterator inside one octet / one 16-bit group where the RDATA needs it
	if typ == TA && gn.Stop > 255 {
		l := (gn.Stop - gn.Start) % 50
		gn.Start %= 200
		gn.Stop = gn.Start + l
	}
	if typ == TAAAA && gn.Stop > 65535 {
		l := (gn.Stop - gn.Start) % 5000
		gn.Start %= 60000
		gn.Stop = gn.Start + l
	}
	iter := func() TPart {
		if huge {
			// modifiers are limited to 31-bit values; a bare iterator is not
			return TPart{Kind: TIter}
		}
		maxOff := gn.Start // i+offset must stay >= 0
		if maxOff > 20 {
			maxOff = 20
		}
		p := g.iterPart(maxOff, true)
		if p.Offset < -gn.Start {
			p.Offset = -gn.Start
		}
		return p
	}
	// left-hand side: owner name
	var lhs Template
	lhs = append(lhs, TPart{Kind: TLit, Lit: g.litLabel()})
	lhs = append(lhs, iter())
	if g.p(20, "ldollar") {
		lhs = append(lhs, TPart{Kind: TDollar})
	}
	if g.p(25, "liter2") {
		lhs = append(lhs, TPart{Kind: TLit, Lit: "-"}, TPart{Kind: TIter})
	}
	if st.Origin == nil || g.p(25, "labs") {
		lhs = append(lhs, TPart{Kind: TLit, Lit: ".gen.example."})
	} else if g.p(25, "lsub") {
		lhs = append(lhs, TPart{Kind: TLit, Lit: ".sub"})
	}
	gn.LHS = lhs
	// right-hand side
	nameRHS := func() Template {
		var tp Template
		tp = append(tp, TPart{Kind: TLit, Lit: g.litLabel()})
		if g.p(80, "riter") {
			tp = append(tp, iter())
		}
		if g.p(15, "rdollar") {
			tp = append(tp, TPart{Kind: TDollar})
		}
		if st.Origin == nil || g.p(40, "rabs") {
			tp = append(tp, TPart{Kind: TLit, Lit: ".target.example."})
		}
		return tp
	}
	switch typ {
	case TA:
		gn.RHS = Template{{Kind: TLit, Lit: fmt.Sprintf("10.%d.%d.", g.n(256, "o2"), g.n(256, "o3"))}, {Kind: TIter}}
	case TAAAA:
		gn.RHS = Template{{Kind: TLit, Lit: "2001:db8::"}, {Kind: TIterMod, NFields: 3, Base: []string{"x", "X"}[g.n(2, "xX")], Width: g.n(5, "w6")}}
	case TMX:
		gn.RHS = append(Template{{Kind: TLit, Lit: fmt.Sprintf("%d ", g.n(65536, "pref"))}}, nameRHS()...)
	case TTXT:
		gn.Quoted = g.p(60, "quoted")
		if gn.Quoted {
			gn.RHS = Template{{Kind: TLit, Lit: "id="}, iter(), {Kind: TLit, Lit: " of (range); x"}}
		} else {
			gn.RHS = Template{{Kind: TLit, Lit: "id="}, iter(), {Kind: TLit, Lit: " second"}}
		}
		if g.p(30, "tdollar") {
			gn.RHS = append(gn.RHS, TPart{Kind: TDollar})
		}
	default:
		gn.RHS = nameRHS()
	}
	_, avail := st.Inherit()
	canOmit := st.TTLAsserted() && avail
	if !canOmit || g.p(50, "ghasttl") {
		gn.HasTTL, gn.TTL = true, g.ttl()
	} else if g.o.ForceGenerateTTL {
		// known finding generate-ttl: the class "$GENERATE without a TTL" is replaced
		gn.HasTTL, gn.TTL = true, g.ttl()
		if g.o.OnExcluded != nil {
			g.o.OnExcluded("generate-ttl")
		}
	}
	if g.p(40, "ghasclass") {
		gn.HasClass, gn.Class = true, g.class()
	}
	return Item{Kind: KGenerate, Gen: gn}
}

// items draws the items of one file under a copy of st; depth is the include depth of the file.
func (g *zgen) items(st State, depth, max int, cur string) []Item {
	var out []Item
	hasInclude := false
	n := g.n(max, "nitems") + 1
	for tries := 0; len(out) < n && tries < 3*n; tries++ {
		k := g.n(100, "ik")
		if g.o.OnlyGenerate && k >= 32 && k < 80 {
			k = 16 // $GENERATE
		}
		if g.o.IncludeHeavy && k >= 32 && k < 70 {
			k = 24 // $INCLUDE
		}
		var it Item
		switch {
		case k < 8:
			it = Item{Kind: KTTL, DirTTL: g.ttl()}
		case k < 16:
			it = Item{Kind: KOrigin}
			if st.Origin != nil && g.p(40, "orel") {
				it.Origin = RelName(wm.Name{g.label()})
			} else {
				it.Origin = AbsName(g.absName(st.Origin))
			}
			it.Origin = g.dirArg(it.Origin)
		case k < 24 && !g.o.NoGenerate:
			it = g.generate(&st)
		case k < 32 && !g.o.NoIncludes && depth < MaxIncludeDepth && g.nfile < 12:
			it = g.include(&st, depth, cur)
		default:
			it = g.record(&st)
		}
		if g.o.MissingTTLError && depth == 0 && it.Kind == KRec && it.HasTTL && g.n(12, "nottl") == 11 {
			if _, avail := st.Inherit(); !avail && st.TTLAsserted() {
				// no $TTL, no stated TTL, no configured default: a record that omits its TTL
				// cannot be completed; the parse must stop here with an error. Line shape
				// "owner type" (see MissingTTLShape).
				it.HasTTL, it.HasClass = false, false
				if it.Owner.Kind == Prev {
					it.Owner = AbsName(g.absName(st.Origin))
				}
				if _, err := st.Record(&it, nil); errors.Is(err, errMissingTTL) {
					return append(out, it)
				}
				continue
			}
		}
		// advance the state exactly as the interpreter does; an item that is not valid here
		// (e.g. a completed name exceeds 255 octets) is dropped
		if err := g.advance(&st, &it, depth, cur); err != nil {
			continue
		}
		hasInclude = hasInclude || it.Kind == KInclude
		out = append(out, it)
	}
	if g.o.DeepChain && !hasInclude && !g.o.NoIncludes && depth < MaxIncludeDepth {
		// a spine down to the nesting limit
		it := g.include(&st, depth, cur)
		if err := g.advance(&st, &it, depth, cur); err == nil {
			out = append(out, it)
		}
	}
	return out
}

// dirArg patches the argument of a directive so that its first label is not keyword-like.
func (g *zgen) dirArg(n MName) MName {
	if g.o.KeywordLike == nil || len(n.Labels) == 0 {
		return n
	}
	l := string(n.Labels[0])
	if g.o.KeywordLike(l) || (len(n.Labels) == 1 && n.Kind == Rel && g.o.KeywordLike(l+".")) {
		if g.o.OnExcluded != nil {
			g.o.OnExcluded("directive-arg-keyword")
		}
		n.Labels = append([][]byte{append([]byte("o-"), n.Labels[0]...)}, n.Labels[1:]...)
		if len(n.Labels[0]) > 63 {
			n.Labels[0] = n.Labels[0][:63]
		}
	}
	return n
}

// advance mirrors interp.file for one item (without recording anything).
func (g *zgen) advance(st *State, it *Item, depth int, cur string) error {
	switch it.Kind {
	case KRec:
		_, err := st.Record(it, nil)
		return err
	case KOrigin:
		o, err := st.Absolute(it.Origin, false)
		if err != nil {
			return err
		}
		st.Origin = namep(o)
	case KTTL:
		st.SetDollarTTL(it.DirTTL)
	case KGenerate:
		if it.Gen.Steps() < 1 || it.Gen.Steps() > MaxGenerateSteps {
			return invalid("range")
		}
		// every step must be valid: check the first, the last and one in the middle
		for _, v := range []int64{it.Gen.Start, it.Gen.Value(it.Gen.Steps() - 1), it.Gen.Value(it.Gen.Steps() / 2)} {
			if _, err := st.generated(it.Gen, v); err != nil {
				return err
			}
		}
		st.AfterGenerate(it.Gen)
	case KInclude:
		// the nested file was generated under the right state; mirror the after-effects
		ip := &interp{z: g.z}
		st.AfterInclude(ip.subtreeTTL(ResolveInclude(cur, it.File), map[string]bool{}))
	}
	return nil
}

var fileNames = []string{"inc", "db.sub", "zone-part", "more_records", "x", "in.db", "mx", "a.b.c"}

func (g *zgen) include(st *State, depth int, cur string) Item {
	it := Item{Kind: KInclude}
	sub := *st
	// one hop in four is made through "$GENERATE n-n $$INCLUDE ..."
	if !g.o.NoGenerate && g.p(25, "viagen") {
		it.ViaGenerate = true
		it.GenAt = int64(g.n(100, "genat"))
		it.GenTimes = 1
		if g.p(15, "gentwice") {
			it.GenTimes = 2
		}
	}
	if g.p(50, "incorigin") {
		it.HasIncOrigin = true
		switch {
		case it.ViaGenerate:
			// plain labels only: backslashes and '$' are special inside a $GENERATE line
			n := wm.Name{[]byte([]string{"sub", "inc", "zone-a", "x_1", "WWW", "b"}[g.n(6, "vgl")])}
			if st.Origin != nil && g.p(50, "increl") {
				it.IncOrigin = RelName(n)
			} else {
				it.IncOrigin = AbsName(append(n, []byte("gen-inc"), []byte("example")))
			}
		case st.Origin != nil && g.p(50, "increl"):
			it.IncOrigin = RelName(wm.Name{g.label()})
			full := append(wm.Name(it.IncOrigin.Labels).Clone(), (*st.Origin)...)
			if !full.Valid() {
				it.IncOrigin = AbsName(g.absName(st.Origin))
			}
		default:
			it.IncOrigin = AbsName(g.absName(st.Origin))
		}
		if !it.ViaGenerate {
			it.IncOrigin = g.dirArg(it.IncOrigin)
		}
		o, err := st.Absolute(it.IncOrigin, false)
		if err != nil {
			it.HasIncOrigin = false
		} else {
			sub.Origin = namep(o)
		}
	}
	sub.PrevOwner, sub.OwnerUnknown = nil, true
	sub.Depth = depth + 1
	sub.ViaGenerateDefault(&it)
	g.nfile++
	name := fmt.Sprintf("%s%d", fileNames[g.n(len(fileNames), "fn")], g.nfile)
	// where the file lives, as seen from the including file: next to it, in a sub-directory, in
	// the parent directory (if there is one), in a sibling directory, or named absolutely
	dir := path.Dir(strings.TrimLeft(path.Clean(cur), "/")) // "." = the root of the include FS: no "../" from there
	switch k := g.n(10, "where"); {
	case k < 3 || g.o.FlatIncludes:
		it.File = name
	case k < 6:
		it.File = dirNames[g.n(len(dirNames), "dn")] + "/" + name
	case k == 6 && dir != ".":
		it.File = "../" + name
	case k == 7 && dir != ".":
		it.File = "../" + dirNames[g.n(len(dirNames), "dn")] + "/" + name
	case k == 8:
		it.File = "./" + name
	default:
		it.File = "/" + dirNames[g.n(len(dirNames), "dn")] + "/" + name
		if g.p(40, "absroot") {
			it.File = "/" + name
		}
	}
	resolved := ResolveInclude(cur, it.File)
	// deeper files are smaller, but chains up to the limit are produced
	max := 4
	if depth >= 2 || g.o.IncludeHeavy {
		max = 2
	}
	items := g.items(sub, depth+1, max, resolved)
	g.z.Files[resolved] = items
	return it
}

var dirNames = []string{"sub", "zones", "d1", "d2", "inc.d", "a"}

// GenZone draws a zone model that is valid (its denotation has no error).
func GenZone(t *rapid.T, o GenOpts) *Zone {
	if o.MaxItems == 0 {
		o.MaxItems = 10
	}
	z := &Zone{Files: map[string][]Item{}}
	g := &zgen{t: t, o: o, z: z}
	z.FileName = []string{"zone.db", "db.example", "Z", "top-level.zone"}[g.n(4, "topname")]
	if !o.FlatIncludes && g.p(50, "topdir") {
		// the top-level file lives in a directory of the include FS
		z.FileName = []string{"zones/", "d1/d2/", "a/", "sub/"}[g.n(4, "topdirn")] + z.FileName
	}
	if !o.FlatIncludes && g.p(35, "topform") {
		// the file argument is not in the clean, rootless form of an fs.FS path: absolute, with
		// "./", "x/../" or "/./" in it. Relative $INCLUDEs are relative to its directory.
		switch g.n(5, "topformk") {
		case 0, 1:
			z.FileName = "/" + z.FileName
		case 2:
			z.FileName = "./" + z.FileName
		case 3:
			z.FileName = "tmp/../" + z.FileName
		default:
			z.FileName = path.Dir(z.FileName) + "/./" + path.Base(z.FileName)
		}
	}
	st := State{OwnerUnknown: true}
	switch k := g.n(10, "orik"); {
	case k < 2:
	case k == 2:
		z.HasOrigin, z.Origin = true, [][]byte{}
	case k == 3:
		// a long origin (wire length 100..200): completed names come close to 255 octets, and
		// their presentation form with escapes gets far beyond 255 characters
		g.long = true
		z.HasOrigin = true
		n := wm.Name{}
		for i := 2 + g.n(2, "lon"); i > 0; i-- {
			n = append(n, g.label())
		}
		n = append(n, []byte("example"))
		for n.WireLen() > 200 {
			n = n[1:]
		}
		z.Origin = [][]byte(n)
	default:
		z.HasOrigin = true
		z.Origin = [][]byte(g.absName(nil))
	}
	if z.HasOrigin {
		st.Origin = namep(wm.Name(z.Origin))
	}
	if g.p(55, "defttl") {
		z.HasDefTTL, z.DefTTL = true, g.ttl()
		st.DefTTL = u32p(z.DefTTL)
	}
	if o.FixedOptions {
		z.HasOrigin, z.Origin = true, [][]byte{}
		st.Origin = namep(wm.Name{})
		z.HasDefTTL, z.DefTTL = true, 3600
		st.DefTTL = u32p(3600)
	}
	z.Items = g.items(st, 0, o.MaxItems, z.FileName)
	if len(o.LastOnlySamples) > 0 || len(o.BanSamples) > 0 {
		replaceNonLast(z, o)
	}
	return z
}

// FSName is the include-FS key of a file as written in a $INCLUDE.
func FSName(written string) string { return strings.TrimLeft(written, "/") }

// replaceNonLast replaces sample records that must not be followed by another line (a known
// finding) unless they are the last item of their file.
func replaceNonLast(z *Zone, o GenOpts) {
	fix := func(items []Item) {
		for i := range items {
			it := &items[i]
			if it.Kind == KRec && (o.BanSamples[it.RD.Sample] || (o.LastOnlySamples[it.RD.Sample] && i != len(items)-1)) {
				it.RD = RData{Type: 44, Sample: "SSHFP"}
				if o.OnExcluded != nil {
					o.OnExcluded("sample-followed:" + "IPSECKEY")
				}
			}
		}
	}
	fix(z.Items)
	for _, f := range z.FileNames()[1:] {
		fix(z.Files[f])
	}
}
