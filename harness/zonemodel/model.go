// Package zonemodel is the zone model of DESIGN.md Appendix D: a structured description of a
// master file (records as written, $ORIGIN, $TTL, $GENERATE, $INCLUDE with nested files), its
// reference denotation (an interpreter of RFC 1035 5.1 + RFC 2308 4 + BIND $GENERATE semantics,
// written without the library's zone parser) and a renderer that turns one model into many
// equivalent texts.
//
// Nothing in this package calls dns.NewRR, dns.ReadRR, dns.NewZoneParser or any pack/unpack
// function. The library is imported only for the RR struct types (the representation in which
// the parser hands out its result) and for numeric constants.
package zonemodel

import (
	"fmt"
	"math"
	"path"
	"strings"

	wm "verif/harness/wiremodel"
)

// NameKind says how a name is written in the model.
type NameKind int

const (
	Abs  NameKind = iota // fully qualified
	Rel                  // relative to the origin current at that point
	At                   // "@"
	Prev                 // owner only: omitted, repeats the previous owner
)

// MName is a name as written.
type MName struct {
	Kind   NameKind
	Labels [][]byte `json:",omitempty"` // Abs: all labels (empty = root); Rel: the leading labels (>= 1)
}

func AbsName(n wm.Name) MName { return MName{Kind: Abs, Labels: [][]byte(n.Clone())} }
func RelName(n wm.Name) MName { return MName{Kind: Rel, Labels: [][]byte(n.Clone())} }

// ItemKind discriminates Item.
type ItemKind int

const (
	KRec ItemKind = iota
	KOrigin
	KTTL
	KGenerate
	KInclude
)

// RData is the RDATA model. Which slices are used depends on Type (see rdata.go).
type RData struct {
	Type   uint16
	Names  []MName  `json:",omitempty"`
	Nums   []uint32 `json:",omitempty"`
	Strs   [][]byte `json:",omitempty"`
	IP     []byte   `json:",omitempty"`
	Hex    []byte   `json:",omitempty"`
	Types  []uint16 `json:",omitempty"`
	Sample string   `json:",omitempty"` // non-empty: fixed sample of the "every type" table (key = mnemonic)
}

// TKind discriminates template parts.
type TKind int

const (
	TLit     TKind = iota // literal text (never contains $ \ { } or blanks)
	TIter                 // $
	TIterMod              // ${offset[,width[,base]]}
	TDollar               // a literal dollar sign, written \$ or $$
)

// TPart is one part of a $GENERATE template.
type TPart struct {
	Kind    TKind
	Lit     string `json:",omitempty"`
	Offset  int64  `json:",omitempty"`
	Width   int    `json:",omitempty"`
	Base    string `json:",omitempty"` // "d" "o" "x" "X"
	NFields int    `json:",omitempty"` // how many of offset,width,base are written (1..3)
}

type Template []TPart

// Generate is a $GENERATE directive.
type Generate struct {
	Start, Stop, Step int64
	LHS               Template
	HasTTL            bool
	TTL               uint32
	HasClass          bool
	Class             uint16
	Type              uint16
	RHS               Template
	Quoted            bool // TXT: the right-hand side is written inside double quotes
}

// Item is one logical line of a file.
type Item struct {
	Kind ItemKind

	// KRec
	Owner    MName
	HasTTL   bool
	TTL      uint32
	HasClass bool
	Class    uint16
	RD       RData

	// KOrigin
	Origin MName

	// KTTL
	DirTTL uint32

	// KGenerate
	Gen *Generate `json:",omitempty"`

	// KInclude
	File         string `json:",omitempty"` // the path as written: relative to the directory of the including file, or absolute
	HasIncOrigin bool
	IncOrigin    MName
	// ViaGenerate: the $INCLUDE line is produced by "$GENERATE n-m $$INCLUDE file [origin]"
	// (one inclusion per step). A $GENERATE is not a level of the include tree.
	ViaGenerate bool  `json:",omitempty"`
	GenAt       int64 `json:",omitempty"` // first iterator value
	GenTimes    int   `json:",omitempty"` // number of steps (0 = 1)
}

// ResolveInclude is the include-FS path of a file named in a $INCLUDE of the file includer: a
// relative path is relative to the directory of the including file; the result is cleaned and
// rootless (fs.FS paths have no leading slash).
func ResolveInclude(includer, written string) string {
	if !path.IsAbs(written) {
		written = path.Join(path.Dir(includer), written)
	}
	return strings.TrimLeft(path.Clean(written), "/")
}

// PlainLabels reports whether every label is made of letters, digits, '-' and '_' only (such
// names can be written inside a $GENERATE line, where backslashes and '$' are special).
func PlainLabels(n MName) bool {
	for _, l := range n.Labels {
		if len(l) == 0 {
			return false
		}
		for _, c := range l {
			if !(c >= 'a' && c <= 'z' || c >= 'A' && c <= 'Z' || c >= '0' && c <= '9' || c == '-' || c == '_') {
				return false
			}
		}
	}
	return true
}

// Zone is a whole model: parser options, the top-level file and the include file system.
type Zone struct {
	HasOrigin bool
	Origin    [][]byte // initial origin (absolute) when HasOrigin
	HasDefTTL bool
	DefTTL    uint32
	FileName  string            // name given to the parser for the top-level file
	Items     []Item            // the top-level file
	Files     map[string][]Item `json:",omitempty"` // include FS
}

// FileItems returns the items of a file ("" or z.FileName = top level).
func (z *Zone) FileItems(file string) []Item {
	if file == "" || file == z.FileName {
		return z.Items
	}
	return z.Files[file]
}

// FileNames lists the top-level file first, then the include files in sorted order.
func (z *Zone) FileNames() []string {
	out := []string{z.FileName}
	var rest []string
	for f := range z.Files {
		rest = append(rest, f)
	}
	sortStrings(rest)
	return append(out, rest...)
}

func sortStrings(s []string) {
	for i := 1; i < len(s); i++ {
		for j := i; j > 0 && s[j] < s[j-1]; j-- {
			s[j], s[j-1] = s[j-1], s[j]
		}
	}
}

// MaxIncludeDepth is the nesting limit of the property statement ("nesting stops at a fixed
// depth"); the value is the library's documented one.
const MaxIncludeDepth = 7

// MaxGenerateSteps is the limit on the number of records of one $GENERATE.
const MaxGenerateSteps = 65536

// Expand writes the template for iterator value i (BIND semantics).
func (tp Template) Expand(i int64) string {
	var sb strings.Builder
	for _, p := range tp {
		switch p.Kind {
		case TLit:
			sb.WriteString(p.Lit)
		case TIter:
			fmt.Fprintf(&sb, "%d", i)
		case TIterMod:
			v := i + p.Offset
			base := p.Base
			if base == "" {
				base = "d"
			}
			sb.WriteString(formatBase(v, p.Width, base))
		case TDollar:
			sb.WriteByte('$')
		}
	}
	return sb.String()
}

// formatBase is printf("%0<width><base>", v) for v >= 0, written out by hand.
func formatBase(v int64, width int, base string) string {
	if v < 0 {
		return "-" + formatBase(-v, width-1, base)
	}
	var digits string
	var b int64
	switch base {
	case "o":
		digits, b = "01234567", 8
	case "x":
		digits, b = "0123456789abcdef", 16
	case "X":
		digits, b = "0123456789ABCDEF", 16
	default:
		digits, b = "0123456789", 10
	}
	s := ""
	if v == 0 {
		s = "0"
	}
	for v > 0 {
		s = string(digits[v%b]) + s
		v /= b
	}
	for len(s) < width {
		s = "0" + s
	}
	return s
}

// HasIter reports whether the template mentions the iterator.
func (tp Template) HasIter() bool {
	for _, p := range tp {
		if p.Kind == TIter || p.Kind == TIterMod {
			return true
		}
	}
	return false
}

// Steps is the number of iterations of the range, or -1 if the range is not valid. Start and
// Stop are non-negative, so Stop-Start cannot overflow; the count is exact for every int64 range
// except 0..MaxInt64 with step 1 (2^63 steps), which is reported as MaxInt64.
func (g *Generate) Steps() int64 {
	if g.Step <= 0 || g.Start < 0 || g.Stop < g.Start {
		return -1
	}
	q := (g.Stop - g.Start) / g.Step
	if q == math.MaxInt64 {
		return q
	}
	return q + 1
}

// Value is the iterator value of step i (0-based, i < Steps()): Start + i*Step, which never
// exceeds Stop and therefore cannot overflow.
func (g *Generate) Value(i int64) int64 { return g.Start + i*g.Step }
