package zonemodel

import (
	"encoding/hex"
	"fmt"
	"net/netip"
	"strings"

	"pgregory.net/rapid"

	wm "verif/harness/wiremodel"
)

// RenderOpts tunes the renderer.
type RenderOpts struct {
	Plain            bool // no devices at all: canonical single-line text, LF, final newline
	NoParens         bool // every record on one physical line (used by the fault-localisation check)
	ForceGenerateTTL bool // never respell a $GENERATE TTL as omitted (known finding generate-ttl)
	// BlankBeforeComment: never write a comment directly behind an owner, class or type token
	// (known finding comment-adjacent-token); OnExcluded is called per replaced draw.
	BlankBeforeComment bool
	// NoCommentBeforeKeywordRdata: no comment inside parentheses in front of an RDATA token that
	// spells a type or class keyword (known finding comment-resets-rrtype). KeywordLike decides.
	NoCommentBeforeKeywordRdata bool
	KeywordLike                 func(token string) bool
	// AvoidEscapedOnly: a name token that consists of nothing but backslash-escaped blanks,
	// semicolons, parentheses, quotes and backslashes gets its first octet written as \DDD
	// (known finding escaped-only-token).
	AvoidEscapedOnly bool
	// BlankWithNewline: a line break inside parentheses is always accompanied by a blank
	// between two tokens (known finding paren-newline-merges-tokens).
	BlankWithNewline bool
	// KeepMissingTTLShape: a record that omits its TTL where the file has no TTL source keeps
	// the line shape of the model ("owner type"; the other shapes are not asserted, see gen.go).
	KeepMissingTTLShape bool
	// NoComment511: no comment of exactly 511 characters inside parentheses (known finding
	// comment-511-in-parens).
	NoComment511 bool
	OnExcluded   func(class string)
}

// LineSpan is the range of physical lines (1-based) of one item.
type LineSpan struct{ First, Last int }

// Rendering is one text form of a zone model.
type Rendering struct {
	Files map[string]string     // file name -> text (top-level file included)
	Spans map[string][]LineSpan // file name -> item -> physical lines
	// Devices counts the rendering devices used (class histogram).
	Devices map[string]int
}

type renderer struct {
	t   *rapid.T
	z   *Zone
	den *Denotation
	o   RenderOpts
	dev map[string]int

	noComment bool // the next line break inside parentheses must not carry a comment
}

func (r *renderer) n(k int) int {
	if k <= 1 || r.o.Plain {
		return 0
	}
	return rapid.IntRange(0, k-1).Draw(r.t, "r")
}

// p is true with probability pct/100 (never in plain mode).
func (r *renderer) p(pct int) bool {
	if r.o.Plain {
		return false
	}
	return rapid.IntRange(0, 99).Draw(r.t, "p") < pct
}

func (r *renderer) use(d string) { r.dev[d]++ }

// Render draws one rendering of z. den must be the denotation of z.
func Render(t *rapid.T, z *Zone, den *Denotation, o RenderOpts) (*Rendering, error) {
	r := &renderer{t: t, z: z, den: den, o: o, dev: map[string]int{}}
	out := &Rendering{Files: map[string]string{}, Spans: map[string][]LineSpan{}, Devices: r.dev}
	for _, f := range z.FileNames() {
		txt, spans, err := r.file(f)
		if err != nil {
			return nil, err
		}
		out.Files[f] = txt
		out.Spans[f] = spans
	}
	return out, nil
}

// RenderPlain is the canonical rendering (no generated choice, no rapid).
func RenderPlain(z *Zone, den *Denotation) (*Rendering, error) {
	return Render(nil, z, den, RenderOpts{Plain: true})
}

// ---------------------------------------------------------------------------------------------

type fileWriter struct {
	sb   strings.Builder
	line int // current physical line (1-based)
	nl   func() string
}

func (w *fileWriter) write(s string) {
	for i := 0; i < len(s); i++ {
		if s[i] == '\n' {
			w.sb.WriteString(w.nl())
			w.line++
		} else {
			w.sb.WriteByte(s[i])
		}
	}
}

func (r *renderer) file(file string) (string, []LineSpan, error) {
	items := r.z.FileItems(file)
	mode := 0
	if !r.o.Plain {
		switch k := r.n(10); {
		case k < 6:
			mode = 0
		case k < 8:
			mode = 1
			r.use("crlf")
		default:
			mode = 2
			r.use("crlf-mixed")
		}
	}
	w := &fileWriter{line: 1}
	w.nl = func() string {
		if mode == 1 || (mode == 2 && r.n(2) == 0) {
			return "\r\n"
		}
		return "\n"
	}
	facts := r.den.Facts[file]
	spans := make([]LineSpan, len(items))
	for i := range items {
		r.filler(w)
		var fs []RecFact
		if facts != nil && i < len(facts) {
			fs = facts[i]
		}
		txt, err := r.item(&items[i], fs)
		if err != nil {
			return "", nil, fmt.Errorf("%s item %d: %w", file, i, err)
		}
		spans[i].First = w.line
		w.write(txt)
		spans[i].Last = w.line
		last := i == len(items)-1
		if last && r.p(15) {
			r.use("no-final-newline")
			break
		}
		w.write("\n")
		if last {
			r.filler(w)
		}
	}
	return w.sb.String(), spans, nil
}

// filler writes 0..2 lines that denote nothing.
func (r *renderer) filler(w *fileWriter) {
	if !r.p(25) {
		return
	}
	for k := r.n(2) + 1; k > 0; k-- {
		switch r.n(4) {
		case 0:
			r.use("blank-line")
			w.write("\n")
		case 1:
			r.use("space-line")
			w.write(r.blanks() + "\n")
		case 2:
			r.use("comment-line")
			w.write(r.comment() + "\n")
		default:
			r.use("indented-comment-line")
			w.write(r.blanks() + r.comment() + "\n")
		}
	}
}

func (r *renderer) blanks() string {
	if r.o.Plain {
		return " "
	}
	switch r.n(6) {
	case 5:
		return "\t"
	case 4:
		return "  "
	case 3:
		return " \t "
	}
	return " "
}

var commentWords = []string{"comment", "serial", "(", ")", "\"", "; ;", "\\", "$INCLUDE x.db", "$TTL 5", "@", "IN A 1.2.3.4", "caf\xc3\xa9", "\xff", "'", "\\\"", "((", "))", "x(y", "3600", "\t"}

func (r *renderer) comment() string {
	var sb strings.Builder
	sb.WriteByte(';')
	for k := r.n(4); k > 0; k-- {
		if r.n(2) == 0 {
			sb.WriteByte(' ')
		}
		sb.WriteString(commentWords[r.n(len(commentWords))])
	}
	return sb.String()
}

func (r *renderer) kwCase(s string) string {
	if r.o.Plain {
		return s
	}
	switch r.n(4) {
	case 2:
		return strings.ToLower(s)
	case 3:
		b := []byte(s)
		for i, c := range b {
			if c >= 'A' && c <= 'Z' && r.n(2) == 0 {
				b[i] = c + 32
			} else if c >= 'a' && c <= 'z' && r.n(2) == 0 {
				b[i] = c - 32
			}
		}
		return string(b)
	}
	return s
}

// ---------------------------------------------------------------------------------------------
// TTL and number spellings

var ttlUnits = []struct {
	c byte
	v uint64
}{{'w', 604800}, {'d', 86400}, {'h', 3600}, {'m', 60}, {'s', 1}}

// TTLText writes v in decimal or in the BIND unit form (for instance 1h30m), any letter case.
func (r *renderer) ttlText(v uint32) string {
	if r.o.Plain || r.n(2) == 0 {
		return fmt.Sprint(v)
	}
	// A sequence of number+unit groups in any order, units may repeat, groups may be zero, a bare
	// number at the end counts seconds; the value is the sum of the groups.
	r.use("ttl-units")
	rest := uint64(v)
	var sb strings.Builder
	groups := 0
	seconds := false
	for ; groups < 6 && (rest > 0 || groups == 0 || r.n(6) == 5); groups++ {
		u := ttlUnits[r.n(len(ttlUnits))]
		q := rest / u.v
		switch k := r.n(4); {
		case q > 0 && k == 3:
			q = uint64(r.n(int(min(q, 1000)))) + 1 // not necessarily the greedy quotient
		case k == 2:
			q = min(q, uint64(r.n(3))) // small or zero groups
		}
		if u.c == 's' && q > 0 {
			seconds = true
		}
		fmt.Fprintf(&sb, "%d%c", q, r.unitCase(u.c))
		rest -= q * u.v
	}
	if seconds && groups > 1 {
		r.use("ttl-units-seconds-not-last")
	}
	switch {
	case rest > 0 && r.n(2) == 0:
		fmt.Fprintf(&sb, "%d%c", rest, r.unitCase('s'))
	case rest > 0:
		r.use("ttl-units-bare-trailing-number")
		fmt.Fprintf(&sb, "%d", rest) // a trailing bare number counts seconds
	}
	return sb.String()
}

func (r *renderer) unitCase(c byte) byte {
	if r.n(2) == 0 {
		return c - 32
	}
	return c
}

// ---------------------------------------------------------------------------------------------
// names

// spellLabel writes one label; mostly canonical, sometimes with \DDD or \c re-spellings.
func (r *renderer) spellLabel(l []byte) string {
	mode := r.n(8)
	if r.o.Plain || mode < 6 {
		return wm.EscLabel(l)
	}
	if mode == 6 {
		// every octet as \DDD: four characters per octet
		r.use("label-all-ddd")
		var sb strings.Builder
		for _, b := range l {
			fmt.Fprintf(&sb, "\\%03d", b)
		}
		return sb.String()
	}
	r.use("label-respelled")
	var sb strings.Builder
	for _, b := range l {
		must := strings.IndexByte(`. '@;()"\$`, b) >= 0 || b < '!' || b > '~'
		switch k := r.n(4); {
		case b < '!' || b > '~' || k == 3:
			fmt.Fprintf(&sb, "\\%03d", b)
		case must || (k == 2 && !isDig(b)):
			sb.WriteByte('\\')
			sb.WriteByte(b)
		default:
			sb.WriteByte(b)
		}
	}
	return sb.String()
}

func (r *renderer) spellLabels(ls [][]byte, trailingDot bool) string {
	if len(ls) == 0 {
		return "."
	}
	var parts []string
	for _, l := range ls {
		parts = append(parts, r.spellLabel(l))
	}
	s := strings.Join(parts, ".")
	if trailingDot {
		s += "."
	}
	return s
}

func hasSuffix(n, suf wm.Name) bool {
	if len(suf) > len(n) {
		return false
	}
	return wm.Name(n[len(n)-len(suf):]).Equal(suf)
}

// nameAlternatives lists the spellings (as model names) that denote the same absolute name on
// every visit. abs picks the absolute value out of the facts.
func nameAlternatives(n MName, facts []RecFact, abs func(*RecFact) wm.Name, owner bool) []MName {
	alts := []MName{n}
	if len(facts) == 0 {
		return alts
	}
	a0 := abs(&facts[0])
	if a0 == nil {
		return alts
	}
	sameAbs, canRel, canAt, canPrev := true, true, true, owner
	var rel wm.Name
	for i := range facts {
		f := &facts[i]
		a := abs(f)
		if a == nil || !a.Equal(a0) {
			sameAbs = false
		}
		if f.Origin == nil || a == nil {
			canRel, canAt = false, false
		} else {
			o := *f.Origin
			if !a.Equal(o) {
				canAt = false
			}
			if len(a) > len(o) && hasSuffix(a, o) {
				lead := wm.Name(a[:len(a)-len(o)])
				if i == 0 {
					rel = lead
				} else if !lead.Equal(rel) {
					canRel = false
				}
			} else {
				canRel = false
			}
		}
		if f.PrevOwner == nil || a == nil || !a.Equal(*f.PrevOwner) {
			canPrev = false
		}
	}
	if sameAbs {
		alts = append(alts, AbsName(a0))
	}
	if canRel && rel != nil {
		alts = append(alts, RelName(rel))
	}
	if canAt {
		alts = append(alts, MName{Kind: At})
	}
	if canPrev {
		alts = append(alts, MName{Kind: Prev})
	}
	return alts
}

func (r *renderer) pickName(n MName, facts []RecFact, abs func(*RecFact) wm.Name, owner bool) MName {
	if r.o.Plain || r.n(2) == 0 {
		return n
	}
	alts := nameAlternatives(n, facts, abs, owner)
	c := alts[r.n(len(alts))]
	if c.Kind != n.Kind {
		r.use("name-respelled")
	}
	return c
}

func (r *renderer) nameText(n MName) string {
	switch n.Kind {
	case At:
		return "@"
	case Prev:
		return ""
	case Rel:
		s := r.spellLabels(n.Labels, false)
		if s == `\#` {
			// RFC 3597: the token \# announces generic RDATA; a name that consists of the octet
			// "#" is therefore never written that way
			return `\035`
		}
		if escapedOnly(s) {
			if r.o.AvoidEscapedOnly {
				if r.o.OnExcluded != nil {
					r.o.OnExcluded("escaped-only-token")
				}
				return fmt.Sprintf("\\%03d", s[1]) + s[2:]
			}
			r.use("escaped-only-token")
		}
		return s
	}
	return r.spellLabels(n.Labels, true)
}

// escapedOnly: the text is a sequence of backslash pairs whose second character is a blank,
// semicolon, parenthesis, quote or backslash.
func escapedOnly(s string) bool {
	if len(s) == 0 || len(s)%2 != 0 {
		return false
	}
	for i := 0; i < len(s); i += 2 {
		if s[i] != '\\' || strings.IndexByte(" \t;()\"\\", s[i+1]) < 0 {
			return false
		}
	}
	return true
}

// ---------------------------------------------------------------------------------------------
// the Speller of one record

type recSpeller struct {
	r     *renderer
	facts []RecFact
	idx   int // index of the next RDATA name
}

func (s *recSpeller) Name(n MName) string {
	i := s.idx
	s.idx++
	c := s.r.pickName(n, s.facts, func(f *RecFact) wm.Name {
		if i < len(f.AbsNames) {
			return f.AbsNames[i]
		}
		return nil
	}, false)
	return s.r.nameText(c)
}

func (s *recSpeller) Num(v uint32, unit bool) string {
	if unit && s.r.p(15) {
		s.r.use("soa-units")
		return s.r.ttlText(v)
	}
	return fmt.Sprint(v)
}

func plainWord(b []byte) bool {
	if len(b) == 0 {
		return false
	}
	for _, c := range b {
		if !(c >= 'a' && c <= 'z' || c >= 'A' && c <= 'Z' || c >= '0' && c <= '9' || c == '-' || c == '_' || c == '=' || c == '.' || c == ':' || c == '/') {
			return false
		}
	}
	return true
}

func (s *recSpeller) Str(b []byte) string {
	if plainWord(b) && s.r.p(30) {
		s.r.use("txt-unquoted")
		return string(b)
	}
	if s.r.o.Plain || s.r.n(6) != 5 {
		return `"` + EscTxt(b) + `"`
	}
	s.r.use("txt-respelled")
	var sb strings.Builder
	sb.WriteByte('"')
	for _, c := range b {
		switch k := s.r.n(5); {
		case c < ' ' || c > '~' || k == 4:
			fmt.Fprintf(&sb, "\\%03d", c)
		case c == '"' || c == '\\' || (k == 3 && !isDig(c)):
			sb.WriteByte('\\')
			sb.WriteByte(c)
		default:
			sb.WriteByte(c)
		}
	}
	sb.WriteByte('"')
	return sb.String()
}

func (s *recSpeller) Word(w string) string { return s.r.kwCase(w) }

func (s *recSpeller) HexChunks(b []byte) []string {
	h := hex.EncodeToString(b)
	if s.r.p(30) {
		h = strings.ToUpper(h)
		s.r.use("hex-upper")
	}
	if len(h) == 0 {
		return nil
	}
	var out []string
	for len(h) > 0 {
		k := len(h)
		if s.r.p(40) {
			k = s.r.n(len(h)) + 1
		}
		out = append(out, h[:k])
		h = h[k:]
	}
	if len(out) > 1 {
		s.r.use("hex-chunks")
	}
	return out
}

func (s *recSpeller) IP(ip []byte) string {
	a, _ := netip.AddrFromSlice(ip)
	if len(ip) == 16 && !s.r.o.Plain {
		switch s.r.n(4) {
		case 0:
			s.r.use("ipv6-expanded")
			return a.StringExpanded()
		case 1:
			s.r.use("ipv6-upper")
			return strings.ToUpper(a.String())
		}
	}
	return a.String()
}

func (s *recSpeller) TypeInMap(t uint16) string {
	if _, ok := Mnemonic[t]; ok && s.r.p(15) {
		s.r.use("bitmap-generic-type")
		return s.r.kwCase(fmt.Sprintf("TYPE%d", t))
	}
	return s.r.kwCase(TypeText(t))
}

// ---------------------------------------------------------------------------------------------
// items

func (r *renderer) item(it *Item, facts []RecFact) (string, error) {
	switch it.Kind {
	case KRec:
		return r.record(it, facts)
	case KOrigin:
		n := r.pickName(it.Origin, facts, func(f *RecFact) wm.Name { return f.AbsOrigin }, false)
		if n.Kind == At || n.Kind == Prev {
			n = it.Origin
		}
		return r.kwCase("$ORIGIN") + r.blanks() + r.nameText(n) + r.trailer(false), nil
	case KTTL:
		return r.kwCase("$TTL") + r.blanks() + r.ttlText(it.DirTTL) + r.trailer(false), nil
	case KInclude:
		if it.ViaGenerate {
			// "$GENERATE n-m $$INCLUDE file [origin]": the model's spelling of the origin is
			// kept (plain labels; no escapes inside a $GENERATE line)
			times := int64(1)
			if it.GenTimes > 1 {
				times = int64(it.GenTimes)
			}
			rng := fmt.Sprintf("%d-%d", it.GenAt, it.GenAt+times-1)
			if r.p(30) {
				rng += "/1"
			}
			dollar := "$$"
			if r.p(50) {
				dollar = `\$`
			}
			s := r.kwCase("$GENERATE") + r.blanks() + rng + r.blanks() + dollar + r.kwCase("INCLUDE") + r.blanks() + it.File
			if it.HasIncOrigin {
				s += r.blanks() + SpellMName(it.IncOrigin)
			}
			r.use("include-via-generate")
			return s + r.trailer(false), nil
		}
		s := r.kwCase("$INCLUDE") + r.blanks() + it.File
		if it.HasIncOrigin {
			n := r.pickName(it.IncOrigin, facts, func(f *RecFact) wm.Name { return f.AbsOrigin }, false)
			if n.Kind == At || n.Kind == Prev {
				n = it.IncOrigin
			}
			s += r.blanks() + r.nameText(n)
		}
		return s + r.trailer(false), nil
	case KGenerate:
		return r.generate(it.Gen, facts)
	}
	return "", fmt.Errorf("bad item kind %d", it.Kind)
}

// trailer is what follows the last token of a logical line: blanks, a closing parenthesis when
// one is open, a comment. The newline is written by the caller.
func (r *renderer) trailer(open bool) string {
	var sb strings.Builder
	if r.p(20) {
		r.use("trailing-blank")
		sb.WriteString(r.blanks())
	}
	if open {
		sb.WriteByte(')')
		if r.p(20) {
			sb.WriteString(r.blanks())
		}
	}
	if r.p(25) {
		r.use("trailing-comment")
		sb.WriteString(r.comment())
	}
	return sb.String()
}

// ttlChoice decides whether the TTL is written and with which value.
func (r *renderer) ttlChoice(has bool, ttl uint32, facts []RecFact, eff func(*RecFact) (uint32, bool)) (bool, uint32) {
	if r.o.Plain || len(facts) == 0 || r.n(3) != 0 {
		return has, ttl
	}
	if has {
		for i := range facts {
			if facts[i].InhTTL == nil || *facts[i].InhTTL != ttl {
				return has, ttl
			}
		}
		r.use("ttl-respelled-omitted")
		return false, 0
	}
	v0, ok := eff(&facts[0])
	if !ok {
		return has, ttl
	}
	for i := range facts {
		v, ok := eff(&facts[i])
		if !ok || v != v0 {
			return has, ttl
		}
	}
	r.use("ttl-respelled-explicit")
	return true, v0
}

func (r *renderer) classText(c uint16) string {
	if _, ok := ClassMnemonic[c]; ok && !r.p(10) {
		return r.kwCase(ClassText(c))
	}
	if _, ok := ClassMnemonic[c]; ok {
		r.use("class-generic")
	}
	return r.kwCase(fmt.Sprintf("CLASS%d", c))
}

func (r *renderer) typeText(t uint16, sample string) string {
	if sample != "" {
		return r.kwCase(sample)
	}
	if r.p(4) {
		r.use("type-generic")
		return r.kwCase(fmt.Sprintf("TYPE%d", t))
	}
	return r.kwCase(TypeText(t))
}

// Shape names the beginning of a record line: owner present or not, and which of TTL and
// class are written in which order.
func Shape(owner bool, hasTTL, hasClass, ttlFirst bool) string {
	s := "noowner/"
	if owner {
		s = "owner/"
	}
	switch {
	case hasTTL && hasClass && ttlFirst:
		return s + "ttl-class"
	case hasTTL && hasClass:
		return s + "class-ttl"
	case hasTTL:
		return s + "ttl"
	case hasClass:
		return s + "class"
	}
	return s + "none"
}

// sixShapes maps a line shape to the numbering of the comment in ZoneParser.Next.
var sixShapes = map[string]string{
	"noowner/none":    "s0-type-only",
	"owner/none":      "s1-owner-type",
	"owner/ttl":       "s2-owner-ttl-type",
	"owner/ttl-class": "s3-owner-ttl-class-type",
	"owner/class":     "s4-owner-class-type",
	"owner/class-ttl": "s5-owner-class-ttl-type",
}

func (r *renderer) record(it *Item, facts []RecFact) (string, error) {
	owner := r.pickName(it.Owner, facts, func(f *RecFact) wm.Name { return f.AbsOwner }, true)
	hasTTL, ttl := r.ttlChoice(it.HasTTL, it.TTL, facts, func(f *RecFact) (uint32, bool) { return f.EffTTL, f.AbsOwner != nil && !f.TTLUncertain })
	hasClass, class := it.HasClass, it.Class
	keepShape := false
	for i := range facts {
		keepShape = keepShape || (facts[i].NoTTLState && r.o.KeepMissingTTLShape)
	}
	if keepShape {
		owner = it.Owner
	}
	if !r.o.Plain && !keepShape && r.n(3) == 0 {
		if hasClass && class == 1 {
			hasClass = false
			r.use("class-respelled-omitted")
		} else if !hasClass {
			hasClass, class = true, 1
			r.use("class-respelled-explicit")
		}
	}
	ttlFirst := r.o.Plain || r.n(2) == 0
	var toks []string
	kw := map[int]bool{} // index of the token *after* which a keyword-like token ends
	if hasTTL && ttlFirst {
		toks = append(toks, r.ttlText(ttl))
	}
	if hasClass {
		toks = append(toks, r.classText(class))
		kw[len(toks)] = true
	}
	if hasTTL && !ttlFirst {
		toks = append(toks, r.ttlText(ttl))
	}
	toks = append(toks, r.typeText(it.RD.Type, it.RD.Sample))
	kw[len(toks)] = true
	kw[0] = owner.Kind != Prev
	sp := &recSpeller{r: r, facts: facts}
	rd, err := Tokens(it.RD, sp)
	if err != nil {
		return "", err
	}
	toks = append(toks, rd...)

	dollar := "0"
	if len(facts) > 0 && facts[0].DollarTTL {
		dollar = "1"
	}
	sh := Shape(owner.Kind != Prev, hasTTL, hasClass, ttlFirst)
	r.use("shape:" + sh + "/dttl" + dollar)
	if c, ok := sixShapes[sh]; ok {
		// the six line beginnings listed in ZoneParser.Next x ($TTL seen or not): the 12-cell matrix
		r.use("cell:" + c + "/dttl" + dollar)
	}

	parens := !r.o.Plain && !r.o.NoParens && r.p(30)
	if parens {
		r.use("parens")
	}
	var sb strings.Builder
	open := false
	sb.WriteString(r.nameText(owner)) // "" when omitted: the line then starts with a blank
	if owner.Kind == Prev {
		sb.WriteString(r.blanks())
	}
	// noComment[i]: no comment may be written in front of token i
	noComment := make([]bool, len(toks)+1)
	if r.o.NoCommentBeforeKeywordRdata && r.o.KeywordLike != nil {
		first := len(toks) - len(rd)
		later := false
		for i := len(toks) - 1; i >= first; i-- {
			later = later || r.o.KeywordLike(toks[i])
			noComment[i] = later
		}
	}
	for i, tk := range toks {
		r.noComment = noComment[i]
		sb.WriteString(r.sep(parens, &open, kw[i]))
		sb.WriteString(tk)
	}
	r.noComment = false
	if parens && !open && r.p(30) {
		// a group that holds nothing but a line break before the end
		sb.WriteString(r.blanks() + "(")
		open = true
		sb.WriteString(r.lineBreak())
	}
	sb.WriteString(r.trailer(open))
	return sb.String(), nil
}

// lineBreak is a newline inside parentheses, optionally preceded by a comment.
func (r *renderer) lineBreak() string {
	if r.p(2) && !r.noComment {
		// a comment of exactly 511 characters (the lexer's comment buffer has 512 octets)
		if !r.o.NoComment511 {
			r.use("comment-511-in-parens")
			return ";" + strings.Repeat("c", 510) + "\n"
		}
		if r.o.OnExcluded != nil {
			r.o.OnExcluded("comment-511-in-parens")
		}
	}
	if r.p(35) {
		if r.noComment {
			if r.o.OnExcluded != nil {
				r.o.OnExcluded("comment-resets-rrtype")
			}
			return "\n"
		}
		r.use("comment-in-parens")
		return r.comment() + "\n"
	}
	return "\n"
}

// sep separates two tokens: at least one blank outside any comment; with parens enabled also
// opening/closing parentheses and, while one is open, line breaks with optional comments.
func (r *renderer) sep(parens bool, open *bool, afterKeyword bool) string {
	if !parens {
		return r.blanks()
	}
	var atoms []string
	blank := false
	for k := r.n(4) + 1; k > 0; k-- {
		switch c := r.n(6); {
		case c <= 1:
			atoms = append(atoms, r.blanks())
			blank = true
		case c == 2 && !*open:
			atoms = append(atoms, "(")
			*open = true
		case c == 3 && *open:
			atoms = append(atoms, ")")
			*open = false
		case c >= 4 && *open:
			r.use("newline-in-parens")
			lb := r.lineBreak()
			if !blank && afterKeyword && lb[0] == ';' {
				if r.o.BlankBeforeComment {
					if r.o.OnExcluded != nil {
						r.o.OnExcluded("comment-adjacent-token")
					}
					atoms = append(atoms, r.blanks())
					blank = true
				} else {
					r.use("comment-adjacent-token")
				}
			}
			atoms = append(atoms, lb)
		}
	}
	if !blank {
		hasNL := false
		for _, a := range atoms {
			hasNL = hasNL || strings.Contains(a, "\n")
		}
		if hasNL && !afterKeyword && r.n(2) == 1 {
			// the line break alone separates the two tokens
			if !r.o.BlankWithNewline {
				r.use("bare-newline-in-parens")
				return strings.Join(atoms, "")
			}
			if r.o.OnExcluded != nil {
				r.o.OnExcluded("paren-newline-merges-tokens")
			}
		}
		i := r.n(len(atoms) + 1)
		if afterKeyword && r.o.BlankBeforeComment {
			i = 0
		}
		atoms = append(atoms[:i], append([]string{r.blanks()}, atoms[i:]...)...)
	}
	return strings.Join(atoms, "")
}

// ---------------------------------------------------------------------------------------------
// $GENERATE

func (r *renderer) template(tp Template) string {
	var sb strings.Builder
	for i, p := range tp {
		switch p.Kind {
		case TLit:
			sb.WriteString(p.Lit)
		case TIter:
			sb.WriteByte('$')
		case TIterMod:
			base := p.Base
			if base == "" {
				base = "d"
			}
			switch p.NFields {
			case 1:
				fmt.Fprintf(&sb, "${%d}", p.Offset)
			case 2:
				fmt.Fprintf(&sb, "${%d,%d}", p.Offset, p.Width)
			default:
				fmt.Fprintf(&sb, "${%d,%d,%s}", p.Offset, p.Width, base)
			}
		case TDollar:
			// after a bare iterator "$$" would read as (literal, iterator): write \$ there
			if (i > 0 && tp[i-1].Kind == TIter) || r.o.Plain || r.n(2) == 0 {
				sb.WriteString(`\$`)
			} else {
				sb.WriteString("$$")
			}
		}
	}
	return sb.String()
}

func (r *renderer) generate(g *Generate, facts []RecFact) (string, error) {
	if g == nil {
		return "", fmt.Errorf("nil generate")
	}
	rng := fmt.Sprintf("%d-%d", g.Start, g.Stop)
	if g.Step != 1 || r.p(30) {
		rng += fmt.Sprintf("/%d", g.Step)
	}
	hasTTL, ttl := g.HasTTL, g.TTL
	if !(r.o.ForceGenerateTTL && hasTTL) {
		h2, t2 := r.ttlChoice(hasTTL, ttl, facts, func(f *RecFact) (uint32, bool) {
			if f.InhTTL == nil {
				return 0, false
			}
			return *f.InhTTL, true
		})
		hasTTL, ttl = h2, t2
	}
	toks := []string{rng, r.template(g.LHS)}
	ttlFirst := r.o.Plain || r.n(2) == 0
	if hasTTL && ttlFirst {
		toks = append(toks, r.ttlText(ttl))
	}
	if g.HasClass {
		toks = append(toks, r.classText(g.Class))
	}
	if hasTTL && !ttlFirst {
		toks = append(toks, r.ttlText(ttl))
	}
	toks = append(toks, r.kwCase(TypeText(g.Type)))
	rhs := r.template(g.RHS)
	if g.Quoted {
		rhs = `"` + rhs + `"`
	}
	toks = append(toks, rhs)
	var sb strings.Builder
	sb.WriteString(r.kwCase("$GENERATE"))
	for _, tk := range toks {
		sb.WriteString(r.blanks())
		sb.WriteString(tk)
	}
	sb.WriteString(r.trailer(false))
	return sb.String(), nil
}

// OriginText spells the initial origin handed to the parser (with or without the final dot).
func OriginText(t *rapid.T, z *Zone) string {
	if !z.HasOrigin {
		return ""
	}
	s := wm.EscName(wm.Name(z.Origin))
	if len(z.Origin) > 0 && rapid.IntRange(0, 3).Draw(t, "odot") == 0 {
		s = strings.TrimSuffix(s, ".")
	}
	return s
}
