package zonemodel

import (
	"encoding/base64"
	"net"
	"time"

	"github.com/miekg/dns"

	wm "verif/harness/wiremodel"
)

// Sample is one fixed RDATA of the "every presentable type once" table: the tokens as they are
// written (absolute names, canonical spelling) and, where the harness models the fields, the
// expected library value (header filled in by BuildRR). Exp == nil: only the header and the
// following record are checked.
//
// The texts are taken from the examples of the defining RFCs where these have one.
type Sample struct {
	Name   string // mnemonic
	Type   uint16
	Tokens []string
	Exp    func() dns.RR
}

func ip4(a, b, c, d byte) net.IP { return ip16([]byte{a, b, c, d}) }

func ts(y int, m time.Month, d, h, mi, s int) uint32 {
	return uint32(time.Date(y, m, d, h, mi, s, 0, time.UTC).Unix())
}

// Samples is the table. Order is fixed (it is indexed by generated integers).
var Samples = []Sample{
	{"A", 1, []string{"192.0.2.1"}, func() dns.RR { return &dns.A{A: ip4(192, 0, 2, 1)} }},
	{"NS", 2, []string{"ns.example.net."}, func() dns.RR { return &dns.NS{Ns: "ns.example.net."} }},
	{"MD", 3, []string{"md.example.net."}, func() dns.RR { return &dns.MD{Md: "md.example.net."} }},
	{"MF", 4, []string{"mf.example.net."}, func() dns.RR { return &dns.MF{Mf: "mf.example.net."} }},
	{"CNAME", 5, []string{"target.example.net."}, func() dns.RR { return &dns.CNAME{Target: "target.example.net."} }},
	{"SOA", 6, []string{"ns.example.net.", "hostmaster.example.net.", "2024010101", "7200", "3600", "1209600", "300"}, func() dns.RR {
		return &dns.SOA{Ns: "ns.example.net.", Mbox: "hostmaster.example.net.", Serial: 2024010101, Refresh: 7200, Retry: 3600, Expire: 1209600, Minttl: 300}
	}},
	{"MB", 7, []string{"mb.example.net."}, func() dns.RR { return &dns.MB{Mb: "mb.example.net."} }},
	{"MG", 8, []string{"mg.example.net."}, func() dns.RR { return &dns.MG{Mg: "mg.example.net."} }},
	{"MR", 9, []string{"mr.example.net."}, func() dns.RR { return &dns.MR{Mr: "mr.example.net."} }},
	{"PTR", 12, []string{"host.example.net."}, func() dns.RR { return &dns.PTR{Ptr: "host.example.net."} }},
	{"HINFO", 13, []string{`"PDP-11"`, `"UNIX"`}, func() dns.RR { return &dns.HINFO{Cpu: "PDP-11", Os: "UNIX"} }},
	{"MINFO", 14, []string{"rmail.example.net.", "email.example.net."}, func() dns.RR {
		return &dns.MINFO{Rmail: "rmail.example.net.", Email: "email.example.net."}
	}},
	{"MX", 15, []string{"10", "mail.example.net."}, func() dns.RR { return &dns.MX{Preference: 10, Mx: "mail.example.net."} }},
	{"TXT", 16, []string{`"hello world"`, `"second"`}, func() dns.RR { return &dns.TXT{Txt: []string{"hello world", "second"}} }},
	{"RP", 17, []string{"mbox.example.net.", "txt.example.net."}, func() dns.RR {
		return &dns.RP{Mbox: "mbox.example.net.", Txt: "txt.example.net."}
	}},
	{"AFSDB", 18, []string{"1", "afs.example.net."}, func() dns.RR { return &dns.AFSDB{Subtype: 1, Hostname: "afs.example.net."} }},
	{"X25", 19, []string{"311061700956"}, func() dns.RR { return &dns.X25{PSDNAddress: "311061700956"} }},
	{"ISDN", 20, []string{`"150862028003217"`, `"004"`}, func() dns.RR { return &dns.ISDN{Address: "150862028003217", SubAddress: "004"} }},
	{"RT", 21, []string{"2", "relay.example.net."}, func() dns.RR { return &dns.RT{Preference: 2, Host: "relay.example.net."} }},
	{"NSAP-PTR", 23, []string{"nsap.example.net."}, func() dns.RR { return &dns.NSAPPTR{Ptr: "nsap.example.net."} }},
	{"SIG", 24, []string{"A", "8", "3", "86400", "20240201000000", "20240101000000", "2642", "example.net.", "AQIDBA=="}, func() dns.RR {
		return &dns.SIG{RRSIG: dns.RRSIG{TypeCovered: 1, Algorithm: 8, Labels: 3, OrigTtl: 86400, Expiration: ts(2024, 2, 1, 0, 0, 0), Inception: ts(2024, 1, 1, 0, 0, 0), KeyTag: 2642, SignerName: "example.net.", Signature: "AQIDBA=="}}
	}},
	{"KEY", 25, []string{"256", "3", "8", "AQIDBA=="}, func() dns.RR {
		return &dns.KEY{DNSKEY: dns.DNSKEY{Flags: 256, Protocol: 3, Algorithm: 8, PublicKey: "AQIDBA=="}}
	}},
	{"PX", 26, []string{"10", "map822.example.net.", "mapx400.example.net."}, func() dns.RR {
		return &dns.PX{Preference: 10, Map822: "map822.example.net.", Mapx400: "mapx400.example.net."}
	}},
	{"GPOS", 27, []string{"-32.6882", "116.8652", "10.0"}, func() dns.RR {
		return &dns.GPOS{Longitude: "-32.6882", Latitude: "116.8652", Altitude: "10.0"}
	}},
	{"AAAA", 28, []string{"2001:db8::1"}, func() dns.RR {
		return &dns.AAAA{AAAA: net.IP{0x20, 0x01, 0x0d, 0xb8, 0, 0, 0, 0, 0, 0, 0, 0, 0, 0, 0, 1}}
	}},
	// RFC 1876: size 30 m = 3e3 cm -> 0x33, default precisions 10000 m = 1e6 cm -> 0x16 and
	// 10 m = 1e3 cm -> 0x13; latitude 2^31 + 152514 s, longitude 2^31 - 255978 s (in 1/1000 s);
	// altitude -24 m above the -100000 m base, in cm.
	{"LOC", 29, []string{"42", "21", "54", "N", "71", "06", "18", "W", "-24m", "30m"}, func() dns.RR {
		return &dns.LOC{Version: 0, Size: 0x33, HorizPre: 0x16, VertPre: 0x13, Latitude: 1<<31 + 152514000, Longitude: 1<<31 - 255978000, Altitude: 10000000 - 2400}
	}},
	{"NXT", 30, []string{"next.example.net.", "A", "MX"}, func() dns.RR {
		return &dns.NXT{NSEC: dns.NSEC{NextDomain: "next.example.net.", TypeBitMap: []uint16{1, 15}}}
	}},
	{"EID", 31, []string{"e32c6f78163a9348"}, func() dns.RR { return &dns.EID{Endpoint: "e32c6f78163a9348"} }},
	{"NIMLOC", 32, []string{"a1b2c3"}, func() dns.RR { return &dns.NIMLOC{Locator: "a1b2c3"} }},
	{"SRV", 33, []string{"0", "5", "5060", "sip.example.net."}, func() dns.RR {
		return &dns.SRV{Priority: 0, Weight: 5, Port: 5060, Target: "sip.example.net."}
	}},
	{"NAPTR", 35, []string{"100", "10", `"u"`, `"E2U+sip"`, `"!^.*$!sip:info@example.com!"`, "."}, func() dns.RR {
		return &dns.NAPTR{Order: 100, Preference: 10, Flags: "u", Service: "E2U+sip", Regexp: "!^.*$!sip:info@example.com!", Replacement: "."}
	}},
	{"KX", 36, []string{"10", "kx.example.net."}, func() dns.RR { return &dns.KX{Preference: 10, Exchanger: "kx.example.net."} }},
	{"CERT", 37, []string{"1", "12345", "8", "AQIDBA=="}, func() dns.RR {
		return &dns.CERT{Type: 1, KeyTag: 12345, Algorithm: 8, Certificate: "AQIDBA=="}
	}},
	{"DNAME", 39, []string{"dname.example.net."}, func() dns.RR { return &dns.DNAME{Target: "dname.example.net."} }},
	{"APL", 42, []string{"1:192.168.32.0/21", "!1:192.168.38.0/28"}, nil},
	{"DS", 43, []string{"60485", "5", "1", "2bb183af5f22588179a53b0a98631fad1a292118"}, func() dns.RR {
		return &dns.DS{KeyTag: 60485, Algorithm: 5, DigestType: 1, Digest: "2bb183af5f22588179a53b0a98631fad1a292118"}
	}},
	{"SSHFP", 44, []string{"2", "1", "123456789abcdef67890123456789abcdef67890"}, func() dns.RR {
		return &dns.SSHFP{Algorithm: 2, Type: 1, FingerPrint: "123456789abcdef67890123456789abcdef67890"}
	}},
	{"IPSECKEY", 45, []string{"10", "1", "2", "192.0.2.38", "AQNRU3mG7TVTO2BkR47usntb102uFJtugbo6BSGvgqt4AQ=="}, func() dns.RR {
		return &dns.IPSECKEY{Precedence: 10, GatewayType: 1, Algorithm: 2, GatewayAddr: ip4(192, 0, 2, 38), PublicKey: "AQNRU3mG7TVTO2BkR47usntb102uFJtugbo6BSGvgqt4AQ=="}
	}},
	{"RRSIG", 46, []string{"A", "8", "3", "86400", "20240201000000", "20240101000000", "2642", "example.net.", "AQIDBA=="}, func() dns.RR {
		return &dns.RRSIG{TypeCovered: 1, Algorithm: 8, Labels: 3, OrigTtl: 86400, Expiration: ts(2024, 2, 1, 0, 0, 0), Inception: ts(2024, 1, 1, 0, 0, 0), KeyTag: 2642, SignerName: "example.net.", Signature: "AQIDBA=="}
	}},
	{"NSEC", 47, []string{"next.example.net.", "A", "MX", "RRSIG", "NSEC", "TYPE1234"}, func() dns.RR {
		return &dns.NSEC{NextDomain: "next.example.net.", TypeBitMap: []uint16{1, 15, 46, 47, 1234}}
	}},
	{"DNSKEY", 48, []string{"257", "3", "8", "AQIDBA=="}, func() dns.RR {
		return &dns.DNSKEY{Flags: 257, Protocol: 3, Algorithm: 8, PublicKey: "AQIDBA=="}
	}},
	{"DHCID", 49, []string{"AAIBY2/AuCccgoJbsaxcQc9TUapptP69lOjxfNuVAA2kjEA="}, func() dns.RR {
		return &dns.DHCID{Digest: "AAIBY2/AuCccgoJbsaxcQc9TUapptP69lOjxfNuVAA2kjEA="}
	}},
	{"NSEC3", 50, []string{"1", "1", "12", "aabbccdd", "2vptu5timamqttgl4luu9kg21e0aor3s", "A", "RRSIG"}, func() dns.RR {
		return &dns.NSEC3{Hash: 1, Flags: 1, Iterations: 12, SaltLength: 4, Salt: "aabbccdd", HashLength: 20, NextDomain: "2vptu5timamqttgl4luu9kg21e0aor3s", TypeBitMap: []uint16{1, 46}}
	}},
	{"NSEC3PARAM", 51, []string{"1", "0", "12", "aabbccdd"}, func() dns.RR {
		return &dns.NSEC3PARAM{Hash: 1, Flags: 0, Iterations: 12, SaltLength: 4, Salt: "aabbccdd"}
	}},
	{"TLSA", 52, []string{"3", "1", "1", "d2abde240d7cd3ee6b4b28c54df034b97983a1d16e8a410e4561cb106618e971"}, func() dns.RR {
		return &dns.TLSA{Usage: 3, Selector: 1, MatchingType: 1, Certificate: "d2abde240d7cd3ee6b4b28c54df034b97983a1d16e8a410e4561cb106618e971"}
	}},
	{"SMIMEA", 53, []string{"3", "1", "1", "d2abde240d7cd3ee6b4b28c54df034b97983a1d16e8a410e4561cb106618e971"}, func() dns.RR {
		return &dns.SMIMEA{Usage: 3, Selector: 1, MatchingType: 1, Certificate: "d2abde240d7cd3ee6b4b28c54df034b97983a1d16e8a410e4561cb106618e971"}
	}},
	{"HIP", 55, []string{"2", "200100107B1A74DF365639CC39F1D578", "AwEAAbdxyhNuSutc5EMzxTs9LBPCIkOFH8cIvM4p9+LrV4e19WzK00+CI6zBCQTdtWsuxKbWIy87UOoJTwkUs7lBu+Upr1gsNrut79ryra+bSRGQb1slImA8YVJyuIDsj7kwzG7jnERNqnWxZ48AWkskmdHaVDP4BcelrTI3rMXdXF5D", "rvs.example.net."}, func() dns.RR {
		pk := "AwEAAbdxyhNuSutc5EMzxTs9LBPCIkOFH8cIvM4p9+LrV4e19WzK00+CI6zBCQTdtWsuxKbWIy87UOoJTwkUs7lBu+Upr1gsNrut79ryra+bSRGQb1slImA8YVJyuIDsj7kwzG7jnERNqnWxZ48AWkskmdHaVDP4BcelrTI3rMXdXF5D"
		raw, _ := base64.StdEncoding.DecodeString(pk)
		return &dns.HIP{HitLength: 16, PublicKeyAlgorithm: 2, PublicKeyLength: uint16(len(raw)), Hit: "200100107B1A74DF365639CC39F1D578", PublicKey: pk, RendezvousServers: []string{"rvs.example.net."}}
	}},
	{"NINFO", 56, []string{`"ninfo text"`}, func() dns.RR { return &dns.NINFO{ZSData: []string{"ninfo text"}} }},
	{"RKEY", 57, []string{"0", "3", "8", "AQIDBA=="}, func() dns.RR {
		return &dns.RKEY{Flags: 0, Protocol: 3, Algorithm: 8, PublicKey: "AQIDBA=="}
	}},
	{"TALINK", 58, []string{"prev.example.net.", "next.example.net."}, func() dns.RR {
		return &dns.TALINK{PreviousName: "prev.example.net.", NextName: "next.example.net."}
	}},
	{"CDS", 59, []string{"60485", "5", "1", "2bb183af5f22588179a53b0a98631fad1a292118"}, func() dns.RR {
		return &dns.CDS{DS: dns.DS{KeyTag: 60485, Algorithm: 5, DigestType: 1, Digest: "2bb183af5f22588179a53b0a98631fad1a292118"}}
	}},
	{"CDNSKEY", 60, []string{"257", "3", "8", "AQIDBA=="}, func() dns.RR {
		return &dns.CDNSKEY{DNSKEY: dns.DNSKEY{Flags: 257, Protocol: 3, Algorithm: 8, PublicKey: "AQIDBA=="}}
	}},
	{"OPENPGPKEY", 61, []string{"AQIDBAUGBwg="}, func() dns.RR { return &dns.OPENPGPKEY{PublicKey: "AQIDBAUGBwg="} }},
	{"CSYNC", 62, []string{"66", "3", "A", "NS", "AAAA"}, func() dns.RR {
		return &dns.CSYNC{Serial: 66, Flags: 3, TypeBitMap: []uint16{1, 2, 28}}
	}},
	{"ZONEMD", 63, []string{"2018031900", "1", "1", "c68090d90a7aed716bc459f9340e3d7c1370d4d24b7e2fc3a1ddc0b9a87153b9a9713b3c9ae5cc27777f98b8e730044c"}, func() dns.RR {
		return &dns.ZONEMD{Serial: 2018031900, Scheme: 1, Hash: 1, Digest: "c68090d90a7aed716bc459f9340e3d7c1370d4d24b7e2fc3a1ddc0b9a87153b9a9713b3c9ae5cc27777f98b8e730044c"}
	}},
	{"SVCB", 64, []string{"1", "svc.example.net.", "alpn=h2", "port=8443"}, func() dns.RR {
		return &dns.SVCB{Priority: 1, Target: "svc.example.net.", Value: []dns.SVCBKeyValue{&dns.SVCBAlpn{Alpn: []string{"h2"}}, &dns.SVCBPort{Port: 8443}}}
	}},
	{"HTTPS", 65, []string{"1", ".", "alpn=h2,h3"}, func() dns.RR {
		return &dns.HTTPS{SVCB: dns.SVCB{Priority: 1, Target: ".", Value: []dns.SVCBKeyValue{&dns.SVCBAlpn{Alpn: []string{"h2", "h3"}}}}}
	}},
	{"SPF", 99, []string{`"v=spf1 -all"`}, func() dns.RR { return &dns.SPF{Txt: []string{"v=spf1 -all"}} }},
	{"UINFO", 100, []string{`"user info"`}, func() dns.RR { return &dns.UINFO{Uinfo: "user info"} }},
	{"UID", 101, []string{"1234"}, func() dns.RR { return &dns.UID{Uid: 1234} }},
	{"GID", 102, []string{"5678"}, func() dns.RR { return &dns.GID{Gid: 5678} }},
	{"NID", 104, []string{"10", "0014:4fff:ff20:ee64"}, func() dns.RR { return &dns.NID{Preference: 10, NodeID: 0x00144fffff20ee64} }},
	{"L32", 105, []string{"10", "10.1.2.0"}, func() dns.RR { return &dns.L32{Preference: 10, Locator32: ip4(10, 1, 2, 0)} }},
	{"L64", 106, []string{"10", "2001:0db8:1140:1000"}, func() dns.RR { return &dns.L64{Preference: 10, Locator64: 0x20010db811401000} }},
	{"LP", 107, []string{"10", "l64-subnet1.example.net."}, func() dns.RR { return &dns.LP{Preference: 10, Fqdn: "l64-subnet1.example.net."} }},
	{"EUI48", 108, []string{"00-00-5e-00-53-2a"}, func() dns.RR { return &dns.EUI48{Address: 0x00005e00532a} }},
	{"EUI64", 109, []string{"00-00-5e-ef-10-00-00-2a"}, func() dns.RR { return &dns.EUI64{Address: 0x00005eef1000002a} }},
	{"URI", 256, []string{"10", "1", `"ftp://ftp1.example.com/public"`}, func() dns.RR {
		return &dns.URI{Priority: 10, Weight: 1, Target: "ftp://ftp1.example.com/public"}
	}},
	{"CAA", 257, []string{"0", "issue", `"ca.example.net"`}, func() dns.RR { return &dns.CAA{Flag: 0, Tag: "issue", Value: "ca.example.net"} }},
	{"AVC", 258, []string{`"app-name:WOLFGANG|app-class:OAM"`}, func() dns.RR { return &dns.AVC{Txt: []string{"app-name:WOLFGANG|app-class:OAM"}} }},
	{"AMTRELAY", 260, []string{"10", "0", "1", "203.0.113.15"}, func() dns.RR {
		return &dns.AMTRELAY{Precedence: 10, GatewayType: 1, GatewayAddr: ip4(203, 0, 113, 15)}
	}},
	{"RESINFO", 261, []string{`"qnamemin"`, `"exterr=15-17"`}, func() dns.RR { return &dns.RESINFO{Txt: []string{"qnamemin", "exterr=15-17"}} }},
	// a type registered with dns.PrivateHandle (wiremodel registers VPRIV = 65280, RDATA = hex words)
	{"VPRIV", 65280, []string{"0a0b", "0c"}, func() dns.RR { return &dns.PrivateRR{Data: &wm.PrivData{B: []byte{0x0a, 0x0b, 0x0c}}} }},
	{"TA", 32768, []string{"60485", "5", "1", "2bb183af5f22588179a53b0a98631fad1a292118"}, func() dns.RR {
		return &dns.TA{KeyTag: 60485, Algorithm: 5, DigestType: 1, Digest: "2bb183af5f22588179a53b0a98631fad1a292118"}
	}},
	{"DLV", 32769, []string{"60485", "5", "1", "2bb183af5f22588179a53b0a98631fad1a292118"}, func() dns.RR {
		return &dns.DLV{DS: dns.DS{KeyTag: 60485, Algorithm: 5, DigestType: 1, Digest: "2bb183af5f22588179a53b0a98631fad1a292118"}}
	}},
}

var sampleIndex = func() map[string]int {
	m := map[string]int{}
	for i, s := range Samples {
		m[s.Name] = i
	}
	return m
}()

// SampleByName looks a sample up by mnemonic.
func SampleByName(name string) (Sample, bool) {
	i, ok := sampleIndex[name]
	if !ok {
		return Sample{}, false
	}
	return Samples[i], true
}
