package zonemodel

import (
	"errors"
	"fmt"
	"net/netip"
	"strconv"
	"strings"

	"github.com/miekg/dns"

	wm "verif/harness/wiremodel"
)

// ExpRec is one record of the denotation.
type ExpRec struct {
	Owner wm.Name
	TTL   uint32
	Class uint16
	Type  uint16
	RR    dns.RR // expected parser result (conventions of BuildRR)

	// TTLAlts (non-empty only for a record that omits its TTL right after an $INCLUDE / $GENERATE
	// whose text stated TTLs): the values the TTL may take - the includer's own inherited value
	// and every value that a parser which lets the TTL state leak out of the included text (BIND
	// does for $TTL) would use. MayFail: the includer itself has no TTL source at that point,
	// so refusing the record ("missing TTL") is a correct outcome as well.
	TTLAlts []uint32
	MayFail bool

	// provenance
	File string
	Item int
	Step int64 // iterator value for $GENERATE records
}

// RecFact is what held when an item was interpreted on one visit of its file. The renderer uses
// the facts of all visits to decide which alternative spellings keep the meaning.
type RecFact struct {
	Origin    *wm.Name // current origin (nil = none)
	PrevOwner *wm.Name // carried owner, nil if there is none or it is not asserted at this point
	InhTTL    *uint32  // TTL an omitted TTL would take, nil if none or not asserted at this point
	DollarTTL bool     // a $TTL value is in force
	AbsOwner  wm.Name
	EffTTL    uint32
	AbsNames  []wm.Name // absolute RDATA names
	AbsOrigin wm.Name   // KOrigin / KInclude with origin: the absolute value
	// number of records of the denotation before this item started / after it finished
	RecsBefore, RecsAfter int
	TTLUncertain          bool // the record omits its TTL where several values are acceptable
	NoTTLState            bool // ... and the file itself has no TTL source at that point
}

// Denotation is the meaning of a zone model.
type Denotation struct {
	Recs []ExpRec
	// Err is "" when the zone is valid; otherwise the class of the error that must end the
	// parse after Recs: "missing-ttl", "include-depth", "include-open", "generate-range".
	Err     string
	ErrFile string
	ErrItem int
	Facts   map[string][][]RecFact // file -> item -> visits
}

// ErrInvalid marks a model that is outside the domain of the property (the generator is wrong,
// or a replayed case was edited by hand): nothing is asserted about it.
var ErrInvalid = errors.New("model outside the domain")

func invalid(format string, a ...any) error {
	return fmt.Errorf("%w: %s", ErrInvalid, fmt.Sprintf(format, a...))
}

// State is the interpreter state of DESIGN Appendix D.
type State struct {
	Origin    *wm.Name
	DollarTTL *uint32 // $TTL value in force
	LastTTL   *uint32 // most recently stated TTL
	DefTTL    *uint32 // configured default
	PrevOwner *wm.Name

	// "Deliberately not asserted" bookkeeping: after an $INCLUDE or $GENERATE the carried owner
	// is not asserted; the TTL an omitted TTL would take is not asserted while U1 (the last
	// stated TTL may or may not have been changed by the included text) or U2 (a $TTL of the
	// included text may or may not be in force) is set.
	OwnerUnknown bool
	U1, U2       bool
	LeakLast     []uint32 // stated TTLs of the included text (candidates while U1)
	LeakDollar   []uint32 // $TTL values of the included text (candidates while U2)

	Depth int
}

func u32p(v uint32) *uint32 { return &v }

func namep(n wm.Name) *wm.Name { c := n.Clone(); return &c }

// Inherit is the TTL an omitted TTL takes: $TTL, else the last stated TTL, else the default.
func (s *State) Inherit() (uint32, bool) {
	switch {
	case s.DollarTTL != nil:
		return *s.DollarTTL, true
	case s.LastTTL != nil:
		return *s.LastTTL, true
	case s.DefTTL != nil:
		return *s.DefTTL, true
	}
	return 0, false
}

// TTLAsserted reports whether the value of Inherit is asserted at this point.
func (s *State) TTLAsserted() bool { return !s.U1 && !s.U2 }

// TTLCandidates lists the acceptable values of an omitted TTL: the file's own inherited value
// (own reports whether there is one) and, while the state is uncertain, what may have leaked.
func (s *State) TTLCandidates() (cands []uint32, own bool) {
	add := func(v uint32) {
		for _, c := range cands {
			if c == v {
				return
			}
		}
		cands = append(cands, v)
	}
	if v, ok := s.Inherit(); ok {
		add(v)
		own = true
	}
	if s.U1 {
		for _, v := range s.LeakLast {
			add(v)
		}
	}
	if s.U2 {
		for _, v := range s.LeakDollar {
			add(v)
		}
	}
	return
}

// AfterGenerate: what a $GENERATE leaves uncertain in the enclosing file.
func (s *State) AfterGenerate(g *Generate) {
	s.OwnerUnknown = true
	if g.HasTTL && s.DollarTTL == nil {
		s.U1 = true
		s.LeakLast = append(append([]uint32(nil), s.LeakLast...), g.TTL)
	}
}

// AfterInclude: what an $INCLUDE leaves uncertain in the including file. Origin and carried
// owner are those from before the directive (BIND documents both as reverting); the TTL state is
// the includer's own, but a value of the included text may have leaked.
func (s *State) AfterInclude(dollars, stated []uint32) {
	if len(dollars) > 0 {
		s.U2 = true
		s.LeakDollar = append(append([]uint32(nil), s.LeakDollar...), dollars...)
	}
	if len(stated) > 0 && s.DollarTTL == nil {
		s.U1 = true
		s.LeakLast = append(append([]uint32(nil), s.LeakLast...), stated...)
	}
}

// Absolute completes a name as written.
func (s *State) Absolute(n MName, owner bool) (wm.Name, error) {
	var out wm.Name
	switch n.Kind {
	case Abs:
		out = wm.Name(n.Labels).Clone()
	case Rel:
		if len(n.Labels) == 0 {
			return nil, invalid("empty relative name")
		}
		if s.Origin == nil {
			return nil, invalid("relative name without an origin")
		}
		out = append(wm.Name(n.Labels).Clone(), (*s.Origin).Clone()...)
	case At:
		if s.Origin == nil {
			return nil, invalid("@ without an origin")
		}
		out = (*s.Origin).Clone()
	case Prev:
		if !owner {
			return nil, invalid("omitted name in RDATA")
		}
		if s.PrevOwner == nil || s.OwnerUnknown {
			return nil, invalid("omitted owner without an asserted previous owner")
		}
		out = (*s.PrevOwner).Clone()
	default:
		return nil, invalid("bad name kind")
	}
	if !out.Valid() {
		return nil, invalid("name exceeds the RFC 1035 limits")
	}
	return out, nil
}

type interp struct {
	z   *Zone
	den *Denotation
}

// Denote computes the denotation of z.
func Denote(z *Zone) (*Denotation, error) {
	ip := &interp{z: z, den: &Denotation{Facts: map[string][][]RecFact{}}}
	st := &State{}
	if z.HasOrigin {
		o := wm.Name(z.Origin)
		if !o.Valid() {
			return nil, invalid("bad initial origin")
		}
		st.Origin = namep(o)
	}
	if z.HasDefTTL {
		st.DefTTL = u32p(z.DefTTL)
	}
	st.OwnerUnknown = true
	if err := ip.file(z.FileName, st); err != nil {
		return nil, err
	}
	return ip.den, nil
}

func (ip *interp) fact(file string, n, item int, f RecFact) {
	f.RecsAfter = len(ip.den.Recs)
	fs := ip.den.Facts[file]
	if fs == nil {
		fs = make([][]RecFact, n)
		ip.den.Facts[file] = fs
	}
	fs[item] = append(fs[item], f)
}

func (ip *interp) snapshot(st *State) RecFact {
	var f RecFact
	if st.Origin != nil {
		f.Origin = namep(*st.Origin)
	}
	if st.PrevOwner != nil && !st.OwnerUnknown {
		f.PrevOwner = namep(*st.PrevOwner)
	}
	if v, ok := st.Inherit(); ok && st.TTLAsserted() {
		f.InhTTL = u32p(v)
	}
	f.DollarTTL = st.DollarTTL != nil
	return f
}

// file interprets one file under state st (st is modified; the caller passes a copy for includes).
func (ip *interp) file(file string, st *State) error {
	items := ip.z.FileItems(file)
	for i := range items {
		if ip.den.Err != "" {
			return nil
		}
		it := &items[i]
		f := ip.snapshot(st)
		f.RecsBefore = len(ip.den.Recs)
		switch it.Kind {
		case KRec:
			rec, err := st.Record(it, &f)
			if err != nil {
				if errors.Is(err, errMissingTTL) {
					ip.den.Err, ip.den.ErrFile, ip.den.ErrItem = "missing-ttl", file, i
					f.TTLUncertain, f.NoTTLState = true, true // the renderer keeps the line shape
					ip.fact(file, len(items), i, f)
					return nil
				}
				return err
			}
			rec.File, rec.Item = file, i
			ip.den.Recs = append(ip.den.Recs, *rec)
		case KOrigin:
			if it.Origin.Kind != Abs && it.Origin.Kind != Rel {
				return invalid("$ORIGIN needs an absolute or relative name")
			}
			o, err := st.Absolute(it.Origin, false)
			if err != nil {
				return err
			}
			f.AbsOrigin = o
			st.Origin = namep(o)
		case KTTL:
			st.SetDollarTTL(it.DirTTL)
		case KGenerate:
			g := it.Gen
			if g == nil {
				return invalid("generate item without directive")
			}
			n := g.Steps()
			if n < 0 {
				return invalid("bad $GENERATE range")
			}
			if n > MaxGenerateSteps {
				ip.den.Err, ip.den.ErrFile, ip.den.ErrItem = "generate-range", file, i
				ip.fact(file, len(items), i, f)
				return nil
			}
			// one record per step of the range: Start, Start+Step, ... while <= Stop. The values
			// are computed as Start + i*Step (no running sum that could wrap around).
			for k := int64(0); k < n; k++ {
				v := g.Value(k)
				rec, err := st.generated(g, v)
				if err != nil {
					if errors.Is(err, errMissingTTL) {
						ip.den.Err, ip.den.ErrFile, ip.den.ErrItem = "missing-ttl", file, i
						ip.fact(file, len(items), i, f)
						return nil
					}
					return err
				}
				rec.File, rec.Item, rec.Step = file, i, v
				ip.den.Recs = append(ip.den.Recs, *rec)
			}
			st.AfterGenerate(g)
		case KInclude:
			sub := *st // origin and TTL state are copied in
			if it.HasIncOrigin {
				if it.IncOrigin.Kind != Abs && it.IncOrigin.Kind != Rel {
					return invalid("$INCLUDE origin needs an absolute or relative name")
				}
				o, err := st.Absolute(it.IncOrigin, false)
				if err != nil {
					return err
				}
				f.AbsOrigin = o
				sub.Origin = namep(o)
			}
			sub.PrevOwner, sub.OwnerUnknown = nil, true
			sub.Depth = st.Depth + 1
			sub.ViaGenerateDefault(it)
			if it.ViaGenerate && it.HasIncOrigin && !PlainLabels(it.IncOrigin) {
				return invalid("origin of a $GENERATE-made $INCLUDE needs plain labels")
			}
			if sub.Depth > MaxIncludeDepth {
				ip.den.Err, ip.den.ErrFile, ip.den.ErrItem = "include-depth", file, i
				ip.fact(file, len(items), i, f)
				return nil
			}
			fname := ResolveInclude(file, it.File)
			if _, ok := ip.z.Files[fname]; !ok || fname == ip.z.FileName {
				ip.den.Err, ip.den.ErrFile, ip.den.ErrItem = "include-open", file, i
				ip.fact(file, len(items), i, f)
				return nil
			}
			times := 1
			if it.ViaGenerate && it.GenTimes > 1 {
				times = it.GenTimes
			}
			for k := 0; k < times && ip.den.Err == ""; k++ {
				// every inclusion starts from the includer's state
				s2 := sub
				if err := ip.file(fname, &s2); err != nil {
					return err
				}
			}
			ip.fact(file, len(items), i, f)
			if ip.den.Err != "" {
				return nil
			}
			// the includer's origin, carried owner and TTL state are as before
			st.AfterInclude(ip.subtreeTTL(fname, map[string]bool{}))
			continue
		default:
			return invalid("bad item kind")
		}
		ip.fact(file, len(items), i, f)
	}
	return nil
}

// subtreeTTL lists the $TTL values and the stated TTLs of the file and of everything it includes.
func (ip *interp) subtreeTTL(file string, seen map[string]bool) (dollars, stated []uint32) {
	if seen[file] {
		return
	}
	seen[file] = true
	for _, it := range ip.z.Files[file] {
		switch it.Kind {
		case KTTL:
			dollars = append(dollars, it.DirTTL)
		case KRec:
			if it.HasTTL {
				stated = append(stated, it.TTL)
			}
		case KGenerate:
			if it.Gen != nil && it.Gen.HasTTL {
				stated = append(stated, it.Gen.TTL)
			}
		case KInclude:
			d, s := ip.subtreeTTL(ResolveInclude(file, it.File), seen)
			dollars, stated = append(dollars, d...), append(stated, s...)
		}
	}
	return
}

// GenerateFallbackTTL is the TTL the library gives the expansion of a $GENERATE when the file has
// no TTL source at all (its documented default for records without one).
const GenerateFallbackTTL = 3600

// ViaGenerateDefault: a file included through "$GENERATE ... $$INCLUDE" is read with the TTL state
// of the expansion; where the file that holds the $GENERATE has no TTL source, that is the
// fallback default.
func (s *State) ViaGenerateDefault(it *Item) {
	if !it.ViaGenerate {
		return
	}
	if _, ok := s.Inherit(); !ok {
		s.DefTTL = u32p(GenerateFallbackTTL)
	}
}

// SetDollarTTL is the effect of a $TTL directive.
func (s *State) SetDollarTTL(v uint32) {
	s.DollarTTL = u32p(v)
	s.U1, s.U2 = false, false
	s.LeakLast, s.LeakDollar = nil, nil
}

var errMissingTTL = errors.New("missing TTL")

// Record interprets one record item and advances the state. f (optional) receives the facts.
func (s *State) Record(it *Item, f *RecFact) (*ExpRec, error) {
	owner, err := s.Absolute(it.Owner, true)
	if err != nil {
		return nil, err
	}
	var ttl uint32
	var alts []uint32
	var mayFail bool
	if it.HasTTL {
		ttl = it.TTL
	} else {
		if !s.TTLAsserted() {
			c, own := s.TTLCandidates()
			if len(c) == 0 {
				return nil, errMissingTTL
			}
			alts, mayFail = c, !own
			ttl = c[0]
		} else {
			v, ok := s.Inherit()
			if !ok {
				return nil, errMissingTTL
			}
			ttl = v
		}
	}
	class := uint16(1)
	if it.HasClass {
		class = it.Class
	}
	var names []wm.Name
	for _, n := range it.RD.Names {
		a, err := s.Absolute(n, false)
		if err != nil {
			return nil, err
		}
		names = append(names, a)
	}
	rr, err := BuildRR(it.RD, owner, ttl, class, names)
	if err != nil {
		return nil, invalid("%v", err)
	}
	if f != nil {
		f.AbsOwner, f.EffTTL, f.AbsNames = owner, ttl, names
		f.TTLUncertain, f.NoTTLState = len(alts) > 0, mayFail
	}
	// state update
	s.PrevOwner, s.OwnerUnknown = namep(owner), false
	if it.HasTTL {
		if s.DollarTTL == nil {
			s.LastTTL = u32p(it.TTL)
		}
		s.U1 = false
		s.LeakLast = nil
	}
	return &ExpRec{Owner: owner, TTL: ttl, Class: class, Type: rr.Header().Rrtype, RR: rr, TTLAlts: alts, MayFail: mayFail}, nil
}

// generated interprets the line of one $GENERATE step. The state is not advanced (every step
// sees the state of the directive).
func (s *State) generated(g *Generate, v int64) (*ExpRec, error) {
	lhs := g.LHS.Expand(v)
	rhs := g.RHS.Expand(v)
	owner, err := s.textName(lhs)
	if err != nil {
		return nil, err
	}
	var ttl uint32
	if g.HasTTL {
		ttl = g.TTL
	} else {
		if !s.TTLAsserted() {
			return nil, invalid("$GENERATE without TTL where the inherited value is not asserted")
		}
		x, ok := s.Inherit()
		if !ok {
			return nil, errMissingTTL
		}
		ttl = x
	}
	class := uint16(1)
	if g.HasClass {
		class = g.Class
	}
	rd := RData{Type: g.Type}
	var names []wm.Name
	switch g.Type {
	case TA:
		a, err := netip.ParseAddr(rhs)
		if err != nil || !a.Is4() {
			return nil, invalid("generated A rdata %q", rhs)
		}
		b := a.As4()
		rd.IP = b[:]
	case TAAAA:
		a, err := netip.ParseAddr(rhs)
		if err != nil || !a.Is6() || a.Zone() != "" || !strings.Contains(rhs, ":") {
			return nil, invalid("generated AAAA rdata %q", rhs)
		}
		b := a.As16()
		rd.IP = b[:]
	case TNS, TCNAME, TPTR, TDNAME:
		n, err := s.textName(rhs)
		if err != nil {
			return nil, err
		}
		names = []wm.Name{n}
		rd.Names = []MName{AbsName(n)}
	case TMX:
		pref, host, ok := strings.Cut(rhs, " ")
		p, err := strconv.ParseUint(pref, 10, 16)
		if !ok || err != nil {
			return nil, invalid("generated MX rdata %q", rhs)
		}
		n, err := s.textName(host)
		if err != nil {
			return nil, err
		}
		names = []wm.Name{n}
		rd.Names = []MName{AbsName(n)}
		rd.Nums = []uint32{uint32(p)}
	case TTXT:
		if g.Quoted {
			if strings.ContainsAny(rhs, "\"\\") || len(rhs) > 255 {
				return nil, invalid("generated TXT rdata %q", rhs)
			}
			rd.Strs = [][]byte{[]byte(rhs)}
		} else {
			for _, w := range strings.Split(rhs, " ") {
				if w == "" || strings.ContainsAny(w, "\"\\;()") || len(w) > 255 {
					return nil, invalid("generated TXT rdata %q", rhs)
				}
				rd.Strs = append(rd.Strs, []byte(w))
			}
		}
	default:
		return nil, invalid("$GENERATE of type %d is not modelled", g.Type)
	}
	rr, err := BuildRR(rd, owner, ttl, class, names)
	if err != nil {
		return nil, invalid("%v", err)
	}
	return &ExpRec{Owner: owner, TTL: ttl, Class: class, Type: g.Type, RR: rr}, nil
}

// textName reads a name from expanded template text (plain labels only) and completes it.
func (s *State) textName(txt string) (wm.Name, error) {
	if txt == "@" {
		return s.Absolute(MName{Kind: At}, false)
	}
	if strings.ContainsAny(txt, "\\ \t\"();@") || txt == "" {
		return nil, invalid("generated name %q", txt)
	}
	n, fq, err := wm.UnescName(txt)
	if err != nil {
		return nil, invalid("generated name %q: %v", txt, err)
	}
	if fq {
		return s.Absolute(AbsName(n), false)
	}
	return s.Absolute(RelName(n), false)
}
