package zonemodel

import (
	"encoding/hex"
	"fmt"
	"net"
	"net/netip"
	"reflect"
	"strings"

	"github.com/miekg/dns"

	wm "verif/harness/wiremodel"
)

// Numeric type codes (IANA registry; written out so that the model does not depend on the
// library's tables).
const (
	TA     uint16 = 1
	TNS    uint16 = 2
	TCNAME uint16 = 5
	TSOA   uint16 = 6
	TPTR   uint16 = 12
	TMX    uint16 = 15
	TTXT   uint16 = 16
	TRP    uint16 = 17
	TAAAA  uint16 = 28
	TSRV   uint16 = 33
	TDNAME uint16 = 39
	TDS    uint16 = 43
	TNSEC  uint16 = 47
	TCAA   uint16 = 257
)

// Mnemonic of the types the model renders structurally (IANA registry).
var Mnemonic = map[uint16]string{
	TA: "A", TNS: "NS", TCNAME: "CNAME", TSOA: "SOA", TPTR: "PTR", TMX: "MX", TTXT: "TXT", TRP: "RP",
	TAAAA: "AAAA", TSRV: "SRV", TDNAME: "DNAME", TDS: "DS", TNSEC: "NSEC", TCAA: "CAA",
	// further mnemonics used inside NSEC bitmaps
	46: "RRSIG", 48: "DNSKEY", 50: "NSEC3", 13: "HINFO", 35: "NAPTR", 52: "TLSA", 99: "SPF",
}

// Class mnemonics (RFC 1035 3.2.4).
var ClassMnemonic = map[uint16]string{1: "IN", 3: "CH", 4: "HS"}

// StructuredTypes lists the types with a structural RDATA model, in a fixed order.
var StructuredTypes = []uint16{TA, TAAAA, TNS, TCNAME, TMX, TSOA, TSRV, TTXT, TPTR, TDNAME, TRP, TCAA, TDS, TNSEC}

// NameCount is the number of domain names in the RDATA of a structured type.
func NameCount(t uint16) int {
	switch t {
	case TNS, TCNAME, TPTR, TDNAME, TMX, TSRV, TNSEC:
		return 1
	case TSOA, TRP:
		return 2
	}
	return 0
}

// ---------------------------------------------------------------------------------------------
// character-string escaping (RFC 1035 5.1: \X and \DDD inside quoted strings)

// EscTxt is the canonical spelling of the octets of a character-string between double quotes.
func EscTxt(b []byte) string {
	var sb strings.Builder
	for _, c := range b {
		switch {
		case c == '"' || c == '\\':
			sb.WriteByte('\\')
			sb.WriteByte(c)
		case c < ' ' || c > '~':
			fmt.Fprintf(&sb, "\\%03d", c)
		default:
			sb.WriteByte(c)
		}
	}
	return sb.String()
}

// UnescTxt reads the text between the quotes back into octets.
func UnescTxt(s string) ([]byte, error) {
	var out []byte
	for i := 0; i < len(s); {
		c := s[i]
		if c != '\\' {
			out = append(out, c)
			i++
			continue
		}
		if i+1 >= len(s) {
			return nil, fmt.Errorf("dangling backslash")
		}
		if i+3 < len(s)+0 && isDig(s[i+1]) && isDig(s[i+2]) && isDig(s[i+3]) {
			v := int(s[i+1]-'0')*100 + int(s[i+2]-'0')*10 + int(s[i+3]-'0')
			if v > 255 {
				return nil, fmt.Errorf("\\DDD above 255")
			}
			out = append(out, byte(v))
			i += 4
			continue
		}
		out = append(out, s[i+1])
		i += 2
	}
	return out, nil
}

func isDig(b byte) bool { return b >= '0' && b <= '9' }

// ---------------------------------------------------------------------------------------------
// Speller: the lexical choices of the renderer for RDATA tokens

// Speller turns model values into tokens. The renderer implements it with generated choices,
// PlainSpeller is the fixed canonical choice.
type Speller interface {
	Name(n MName) string            // a domain name in RDATA
	Num(v uint32, unit bool) string // a number; unit = a duration, unit suffixes are permitted
	Str(b []byte) string            // a character-string (with its quotes, if any)
	Word(s string) string           // a case-insensitive keyword (mnemonic)
	HexChunks(b []byte) []string    // hex data, possibly split into several tokens
	IP(ip []byte) string
	TypeInMap(t uint16) string // a type inside an NSEC bitmap
}

// Tokens is the list of RDATA tokens of rd.
func Tokens(rd RData, sp Speller) ([]string, error) {
	if rd.Sample != "" {
		s, ok := SampleByName(rd.Sample)
		if !ok {
			return nil, fmt.Errorf("unknown sample %q", rd.Sample)
		}
		return append([]string(nil), s.Tokens...), nil
	}
	need := func(names, nums, strs int) error {
		if len(rd.Names) != names || len(rd.Nums) != nums || len(rd.Strs) < strs {
			return fmt.Errorf("rdata model of type %d has wrong arity", rd.Type)
		}
		return nil
	}
	switch rd.Type {
	case TA:
		if len(rd.IP) != 4 {
			return nil, fmt.Errorf("A needs 4 octets")
		}
		return []string{sp.IP(rd.IP)}, nil
	case TAAAA:
		if len(rd.IP) != 16 {
			return nil, fmt.Errorf("AAAA needs 16 octets")
		}
		return []string{sp.IP(rd.IP)}, nil
	case TNS, TCNAME, TPTR, TDNAME:
		if err := need(1, 0, 0); err != nil {
			return nil, err
		}
		return []string{sp.Name(rd.Names[0])}, nil
	case TMX:
		if err := need(1, 1, 0); err != nil {
			return nil, err
		}
		return []string{sp.Num(rd.Nums[0], false), sp.Name(rd.Names[0])}, nil
	case TSOA:
		if err := need(2, 5, 0); err != nil {
			return nil, err
		}
		return []string{sp.Name(rd.Names[0]), sp.Name(rd.Names[1]), sp.Num(rd.Nums[0], false),
			sp.Num(rd.Nums[1], true), sp.Num(rd.Nums[2], true), sp.Num(rd.Nums[3], true), sp.Num(rd.Nums[4], true)}, nil
	case TSRV:
		if err := need(1, 3, 0); err != nil {
			return nil, err
		}
		return []string{sp.Num(rd.Nums[0], false), sp.Num(rd.Nums[1], false), sp.Num(rd.Nums[2], false), sp.Name(rd.Names[0])}, nil
	case TTXT:
		if len(rd.Strs) == 0 {
			return nil, fmt.Errorf("TXT needs a string")
		}
		var out []string
		for _, s := range rd.Strs {
			out = append(out, sp.Str(s))
		}
		return out, nil
	case TRP:
		if err := need(2, 0, 0); err != nil {
			return nil, err
		}
		return []string{sp.Name(rd.Names[0]), sp.Name(rd.Names[1])}, nil
	case TCAA:
		if err := need(0, 1, 2); err != nil {
			return nil, err
		}
		return []string{sp.Num(rd.Nums[0], false), string(rd.Strs[0]), sp.Str(rd.Strs[1])}, nil
	case TDS:
		if err := need(0, 3, 0); err != nil {
			return nil, err
		}
		out := []string{sp.Num(rd.Nums[0], false), sp.Num(rd.Nums[1], false), sp.Num(rd.Nums[2], false)}
		return append(out, sp.HexChunks(rd.Hex)...), nil
	case TNSEC:
		if err := need(1, 0, 0); err != nil {
			return nil, err
		}
		out := []string{sp.Name(rd.Names[0])}
		for _, t := range rd.Types {
			out = append(out, sp.TypeInMap(t))
		}
		return out, nil
	}
	return nil, fmt.Errorf("no RDATA model for type %d", rd.Type)
}

// PlainSpeller writes the canonical spelling; names are written as the model says.
type PlainSpeller struct{}

func (PlainSpeller) Name(n MName) string            { return SpellMName(n) }
func (PlainSpeller) Num(v uint32, unit bool) string { return fmt.Sprint(v) }
func (PlainSpeller) Str(b []byte) string            { return `"` + EscTxt(b) + `"` }
func (PlainSpeller) Word(s string) string           { return s }
func (PlainSpeller) HexChunks(b []byte) []string    { return []string{hex.EncodeToString(b)} }
func (PlainSpeller) IP(ip []byte) string            { return IPText(ip) }
func (PlainSpeller) TypeInMap(t uint16) string      { return TypeText(t) }

// IPText is the usual text form of a 4- or 16-octet address.
func IPText(ip []byte) string {
	a, _ := netip.AddrFromSlice(ip)
	return a.String()
}

// TypeText is the mnemonic, or the RFC 3597 TYPEnnn form.
func TypeText(t uint16) string {
	if m, ok := Mnemonic[t]; ok {
		return m
	}
	return fmt.Sprintf("TYPE%d", t)
}

// ClassText is the mnemonic, or the RFC 3597 CLASSnnn form.
func ClassText(c uint16) string {
	if m, ok := ClassMnemonic[c]; ok {
		return m
	}
	return fmt.Sprintf("CLASS%d", c)
}

// SpellMName writes a name as the model has it, in the canonical escaping.
func SpellMName(n MName) string {
	switch n.Kind {
	case At:
		return "@"
	case Prev:
		return ""
	case Rel:
		var parts []string
		for _, l := range n.Labels {
			parts = append(parts, wm.EscLabel(l))
		}
		return strings.Join(parts, ".")
	}
	return wm.EscName(wm.Name(n.Labels))
}

// ---------------------------------------------------------------------------------------------
// expected library value, built field by field

// BuildRR builds the value the parser is expected to hand out for a record with the given
// absolute owner, TTL, class and RDATA; names holds the absolute RDATA names in order.
// Conventions: names in the canonical escaping, character-strings in the canonical escaping,
// addresses as 16-octet net.IP, hex in lower case, Rdlength 0.
func BuildRR(rd RData, owner wm.Name, ttl uint32, class uint16, names []wm.Name) (dns.RR, error) {
	hdr := dns.RR_Header{Name: wm.EscName(owner), Rrtype: rd.Type, Class: class, Ttl: ttl}
	if rd.Sample != "" {
		s, ok := SampleByName(rd.Sample)
		if !ok {
			return nil, fmt.Errorf("unknown sample %q", rd.Sample)
		}
		hdr.Rrtype = s.Type
		if s.Exp == nil {
			return &HeaderOnly{Hdr: hdr}, nil
		}
		rr := s.Exp()
		*rr.Header() = hdr
		return rr, nil
	}
	nm := func(i int) string { return wm.EscName(names[i]) }
	if len(names) != NameCount(rd.Type) {
		return nil, fmt.Errorf("type %d: %d names given", rd.Type, len(names))
	}
	switch rd.Type {
	case TA:
		return &dns.A{Hdr: hdr, A: ip16(rd.IP)}, nil
	case TAAAA:
		return &dns.AAAA{Hdr: hdr, AAAA: ip16(rd.IP)}, nil
	case TNS:
		return &dns.NS{Hdr: hdr, Ns: nm(0)}, nil
	case TCNAME:
		return &dns.CNAME{Hdr: hdr, Target: nm(0)}, nil
	case TPTR:
		return &dns.PTR{Hdr: hdr, Ptr: nm(0)}, nil
	case TDNAME:
		return &dns.DNAME{Hdr: hdr, Target: nm(0)}, nil
	case TMX:
		return &dns.MX{Hdr: hdr, Preference: uint16(rd.Nums[0]), Mx: nm(0)}, nil
	case TSOA:
		return &dns.SOA{Hdr: hdr, Ns: nm(0), Mbox: nm(1), Serial: rd.Nums[0], Refresh: rd.Nums[1], Retry: rd.Nums[2], Expire: rd.Nums[3], Minttl: rd.Nums[4]}, nil
	case TSRV:
		return &dns.SRV{Hdr: hdr, Priority: uint16(rd.Nums[0]), Weight: uint16(rd.Nums[1]), Port: uint16(rd.Nums[2]), Target: nm(0)}, nil
	case TTXT:
		var ss []string
		for _, s := range rd.Strs {
			ss = append(ss, EscTxt(s))
		}
		return &dns.TXT{Hdr: hdr, Txt: ss}, nil
	case TRP:
		return &dns.RP{Hdr: hdr, Mbox: nm(0), Txt: nm(1)}, nil
	case TCAA:
		return &dns.CAA{Hdr: hdr, Flag: uint8(rd.Nums[0]), Tag: string(rd.Strs[0]), Value: EscTxt(rd.Strs[1])}, nil
	case TDS:
		return &dns.DS{Hdr: hdr, KeyTag: uint16(rd.Nums[0]), Algorithm: uint8(rd.Nums[1]), DigestType: uint8(rd.Nums[2]), Digest: hex.EncodeToString(rd.Hex)}, nil
	case TNSEC:
		bm := make([]uint16, 0, len(rd.Types))
		bm = append(bm, rd.Types...)
		return &dns.NSEC{Hdr: hdr, NextDomain: nm(0), TypeBitMap: bm}, nil
	}
	return nil, fmt.Errorf("no RDATA model for type %d", rd.Type)
}

func ip16(b []byte) net.IP {
	if len(b) == 4 {
		return net.IP{0, 0, 0, 0, 0, 0, 0, 0, 0, 0, 0xff, 0xff, b[0], b[1], b[2], b[3]}
	}
	return net.IP(append([]byte(nil), b...))
}

// HeaderOnly stands for "a record of this type; RDATA not modelled". It is never handed to the
// library; Compare only checks the header of the parsed record against it.
type HeaderOnly struct {
	dns.ANY
	Hdr dns.RR_Header
}

func (h *HeaderOnly) Header() *dns.RR_Header { return &h.Hdr }

// ---------------------------------------------------------------------------------------------
// normalisation of a parsed record into the conventions of BuildRR

func canonName(s string) (string, error) {
	n, fq, err := wm.UnescName(s)
	if err != nil {
		return "", fmt.Errorf("name %q: %v", s, err)
	}
	if !fq {
		return "", fmt.Errorf("name %q is not fully qualified", s)
	}
	return wm.EscName(n), nil
}

func canonTxt(s string) (string, error) {
	b, err := UnescTxt(s)
	if err != nil {
		return "", fmt.Errorf("string %q: %v", s, err)
	}
	return EscTxt(b), nil
}

// Normalize returns a copy of a parsed record in the conventions of BuildRR. The library's own
// Copy is not used (a harness-side reflection clone is).
func Normalize(in dns.RR) (dns.RR, error) {
	if in == nil {
		return nil, fmt.Errorf("nil record")
	}
	rr := cloneRR(in)
	h := rr.Header()
	var err error
	if h.Name, err = canonName(h.Name); err != nil {
		return nil, fmt.Errorf("owner: %v", err)
	}
	h.Rdlength = 0
	fix := func(p *string) {
		if err != nil {
			return
		}
		*p, err = canonName(*p)
	}
	switch x := rr.(type) {
	case *dns.NS:
		fix(&x.Ns)
	case *dns.CNAME:
		fix(&x.Target)
	case *dns.PTR:
		fix(&x.Ptr)
	case *dns.DNAME:
		fix(&x.Target)
	case *dns.MX:
		fix(&x.Mx)
	case *dns.SOA:
		fix(&x.Ns)
		fix(&x.Mbox)
	case *dns.SRV:
		fix(&x.Target)
	case *dns.RP:
		fix(&x.Mbox)
		fix(&x.Txt)
	case *dns.NSEC:
		fix(&x.NextDomain)
		if x.TypeBitMap == nil {
			x.TypeBitMap = []uint16{}
		}
	case *dns.TXT:
		for i := range x.Txt {
			if err == nil {
				x.Txt[i], err = canonTxt(x.Txt[i])
			}
		}
	case *dns.CAA:
		x.Value, err = canonTxt(x.Value)
	case *dns.DS:
		x.Digest = strings.ToLower(x.Digest)
	}
	if err != nil {
		return nil, err
	}
	normIPs(reflect.ValueOf(rr))
	return rr, nil
}

var ipType = reflect.TypeOf(net.IP(nil))

// normIPs rewrites every 4-octet net.IP reachable from v into the 16-octet form.
func normIPs(v reflect.Value) {
	switch v.Kind() {
	case reflect.Ptr, reflect.Interface:
		if !v.IsNil() {
			normIPs(v.Elem())
		}
	case reflect.Struct:
		for i := 0; i < v.NumField(); i++ {
			normIPs(v.Field(i))
		}
	case reflect.Slice:
		if v.Type() == ipType {
			if v.Len() == 4 && v.CanSet() {
				b := v.Bytes()
				v.Set(reflect.ValueOf(ip16(b)))
			}
			return
		}
		if v.Type().Elem().Kind() == reflect.Uint8 {
			return
		}
		for i := 0; i < v.Len(); i++ {
			normIPs(v.Index(i))
		}
	}
}

// cloneRR is a deep copy by reflection (exported fields only; RR structs have no others).
func cloneRR(in dns.RR) dns.RR {
	v := reflect.ValueOf(in)
	out := deepClone(v)
	return out.Interface().(dns.RR)
}

func deepClone(v reflect.Value) reflect.Value {
	switch v.Kind() {
	case reflect.Ptr:
		if v.IsNil() {
			return v
		}
		n := reflect.New(v.Type().Elem())
		n.Elem().Set(deepClone(v.Elem()))
		return n
	case reflect.Interface:
		if v.IsNil() {
			return v
		}
		n := reflect.New(v.Type()).Elem()
		n.Set(deepClone(v.Elem()))
		return n
	case reflect.Struct:
		n := reflect.New(v.Type()).Elem()
		n.Set(v)
		for i := 0; i < v.NumField(); i++ {
			if n.Field(i).CanSet() {
				n.Field(i).Set(deepClone(v.Field(i)))
			}
		}
		return n
	case reflect.Slice:
		if v.IsNil() {
			return v
		}
		n := reflect.MakeSlice(v.Type(), v.Len(), v.Len())
		for i := 0; i < v.Len(); i++ {
			n.Index(i).Set(deepClone(v.Index(i)))
		}
		return n
	}
	return v
}
