package c06

import (
	"errors"
	"fmt"
	"io"
	"io/fs"
	"sort"
	"strings"
	"syscall"

	"pgregory.net/rapid"

	"verif/harness/pbt"
	zm "verif/harness/zonemodel"
)

// $INCLUDE "splices in the named file's records", and parsing "yields exactly the records" the
// zone denotes: when a file of the include tree cannot be read to its end, the parser cannot know
// the records the zone denotes, so the parse must not end without an error; what it handed out
// before is a prefix of the denotation. The fault is injected by the include FS (or, for the
// top-level file, by the reader): Read delivers the first k octets of one file and then fails with
// an error that is not io.EOF, for every k from 0 to the length of the file (k = length: the
// failure stands where the end of the file was due). Whether the parser was handed the failure is
// observed at the reader, not asked from the library.

type faultPlan struct {
	File  string // key of the rendering's file map (the name the include FS knows it by)
	After int    // octets delivered before the failure
	Kind  int    // 0: (0, err) on the next call; 1: the last octets and the error in one call; 2: as 0 with an *fs.PathError
	fired int    // how often a Read returned the failure
}

var errDisk = errors.New("injected: reading the file failed")

func (p *faultPlan) err() error {
	if p.Kind == 2 {
		return &fs.PathError{Op: "read", Path: p.File, Err: syscall.EIO}
	}
	return errDisk
}

// faultReader delivers left octets of r, then the failure (for good).
type faultReader struct {
	r    io.Reader
	plan *faultPlan
	left int
}

func (f *faultReader) Read(p []byte) (int, error) {
	if f.left <= 0 {
		f.plan.fired++
		return 0, f.plan.err()
	}
	if len(p) > f.left {
		p = p[:f.left]
	}
	n, err := f.r.Read(p)
	f.left -= n
	if err == nil && f.left == 0 && n > 0 && f.plan.Kind == 1 {
		f.plan.fired++
		return n, f.plan.err()
	}
	return n, err
}

type faultFS struct {
	fs.FS
	plan *faultPlan
}

type faultFile struct {
	fs.File
	rd *faultReader
}

func (f faultFile) Read(p []byte) (int, error) { return f.rd.Read(p) }

func (f faultFS) Open(name string) (fs.File, error) {
	file, err := f.FS.Open(name)
	if err != nil || name != f.plan.File {
		return file, err
	}
	return faultFile{File: file, rd: &faultReader{r: file, plan: f.plan, left: f.plan.After}}, nil
}

// evalFault parses the rendering with one fault and checks the outcome against the denotation of
// the intact zone.
func evalFault(c *zoneCase, files map[string]string, den *zm.Denotation, target string, after, kind int) error {
	plan := &faultPlan{File: target, After: after, Kind: kind}
	cc := *c
	cc.fault = plan
	got, perr := parseZone(&cc, files, len(den.Recs)+8)
	where := func() string {
		return fmt.Sprintf("Read of %q fails after %d of its %d octets (kind %d)", target, after, len(files[target]), kind)
	}
	if plan.fired == 0 {
		// the parser never got that far (a record before it may be refused): the fault plays no part
		if err := zm.CompareOutcome(got, perr, den); err != nil {
			return pbt.Errf("%s, the parser did not read that far: %v\n%s", where(), err, showRendering(c, rendering{Files: files}))
		}
		return nil
	}
	if perr == nil {
		return pbt.Errf("%s, yet the parse ends with Err() == nil after %d of the %d records of the zone\n%s", where(), len(got), len(den.Recs), showRendering(c, rendering{Files: files}))
	}
	if len(got) > len(den.Recs) {
		return pbt.Errf("%s: %d records returned, the intact zone has %d (then: %v)\n%s", where(), len(got), len(den.Recs), perr, showRendering(c, rendering{Files: files}))
	}
	if err := zm.Compare(got, den.Recs[:len(got)]); err != nil {
		return pbt.Errf("%s: the records returned before the error (%v) are not a prefix of the zone: %v\n%s", where(), perr, err, showRendering(c, rendering{Files: files}))
	}
	return nil
}

// ---------------------------------------------------------------------------------------------
// generated: a zone with an include tree, one file of it, a set of offsets

type incFaultCase struct {
	Case    zoneCase // one rendering, read through the include FS
	Target  string
	Offsets []int // octets delivered before the failure; empty = every offset 0..len
	Kind    int
}

func genIncFault(t *rapid.T) incFaultCase {
	o := genOpts()
	o.MaxItems = 4
	o.NoSamples = true
	o.IncludeHeavy = true
	o.MissingTTLError = false
	o.DeepChain = rapid.IntRange(0, 9).Draw(t, "deep") == 9
	z := zm.GenZone(t, o)
	for tries := 0; len(z.Files) == 0 && tries < 3; tries++ {
		z = zm.GenZone(t, o) // a zone without any $INCLUDE: draw again
	}
	c := finish(t, z, 1)
	c.UseOS = false
	out := incFaultCase{Case: c, Kind: rapid.IntRange(0, 2).Draw(t, "kind")}
	if len(c.Renderings) == 0 {
		return out
	}
	names := z.FileNames()
	// mostly an included file; now and then the top-level file itself
	i := 0
	if len(names) > 1 && rapid.IntRange(0, 7).Draw(t, "top") != 0 {
		i = rapid.IntRange(1, len(names)-1).Draw(t, "file")
	}
	out.Target = names[i]
	n := len(c.Renderings[0].Files[out.Target])
	if n <= 300 && rapid.IntRange(0, 2).Draw(t, "all") == 0 {
		return out // every offset
	}
	out.Offsets = []int{0, n}
	if n > 0 {
		out.Offsets = append(out.Offsets, n-1)
	}
	for k := rapid.IntRange(3, 12).Draw(t, "noff"); k > 0; k-- {
		out.Offsets = append(out.Offsets, rapid.IntRange(0, n).Draw(t, "off"))
	}
	return out
}

func checkIncFault(c incFaultCase) error {
	den, err := zm.Denote(&c.Case.Zone)
	files := map[string]string{}
	if len(c.Case.Renderings) == 1 {
		files = c.Case.Renderings[0].Files
	}
	text, ok := files[c.Target]
	if err != nil || den.Err != "" || !ok || c.Kind < 0 || c.Kind > 2 || c.Case.UseOS || len(c.Offsets) > 400 || len(text) > 20000 {
		pbt.Note(nil, false, "invalid-model")
		return nil
	}
	offs := append([]int{}, c.Offsets...)
	if len(offs) == 0 {
		if len(text) > 400 {
			pbt.Note(nil, false, "invalid-model")
			return nil
		}
		for k := 0; k <= len(text); k++ {
			offs = append(offs, k)
		}
	}
	for _, k := range offs {
		if k < 0 || k > len(text) {
			pbt.Note(nil, false, "invalid-model")
			return nil
		}
	}
	sort.Ints(offs)
	classes := []string{fmt.Sprintf("fault:kind=%d", c.Kind), fmt.Sprintf("fault:offsets=%s", bucket(len(offs))), fmt.Sprintf("fault:reader=%d", c.Case.Reader)}
	top := c.Target == c.Case.Zone.FileName
	if top {
		classes = append(classes, "fault:in-top-level-file")
	} else {
		classes = append(classes, "fault:in-included-file", fmt.Sprintf("fault:file-at-depth=%d", fileDepth(&c.Case.Zone, c.Target)))
		if len(c.Case.Zone.Files[c.Target]) == 0 || text == "" {
			classes = append(classes, "fault:in-empty-file")
		}
		if includedViaGenerate(&c.Case.Zone, c.Target) {
			classes = append(classes, "fault:file-included-via-generate")
		}
	}
	if len(c.Offsets) == 0 {
		classes = append(classes, "fault:every-offset")
	}
	classes = append(classes, "fault:at-start", "fault:where-the-end-was-due")
	pbt.Note([]byte(fmt.Sprintf("%s\x00%d\x00%v\x00%s", c.Target, c.Kind, offs, textKey(&c.Case))), !top, classes...)
	pbt.Sample("read-fault", fmt.Sprintf("file %q kind %d offsets %v\n%s", c.Target, c.Kind, offs, showRendering(&c.Case, c.Case.Renderings[0])))
	// control: the intact zone parses to its denotation
	if err := evalZone(&c.Case, den); err != nil {
		return err
	}
	for _, k := range offs {
		if err := evalFault(&c.Case, files, den, c.Target, k, c.Kind); err != nil {
			return err
		}
	}
	return nil
}

// fileDepth: the shallowest nesting level at which the file is included (0 = not found).
func fileDepth(z *zm.Zone, target string) int {
	best := 0
	var walk func(file string, d int)
	walk = func(file string, d int) {
		if d > zm.MaxIncludeDepth+1 {
			return
		}
		for _, it := range z.FileItems(file) {
			if it.Kind != zm.KInclude {
				continue
			}
			r := zm.ResolveInclude(file, it.File)
			if r == target && (best == 0 || d+1 < best) {
				best = d + 1
			}
			if _, ok := z.Files[r]; ok {
				walk(r, d+1)
			}
		}
	}
	walk(z.FileName, 0)
	return best
}

func includedViaGenerate(z *zm.Zone, target string) bool {
	for _, f := range z.FileNames() {
		for _, it := range z.FileItems(f) {
			if it.Kind == zm.KInclude && it.ViaGenerate && zm.ResolveInclude(f, it.File) == target {
				return true
			}
		}
	}
	return false
}

// ---------------------------------------------------------------------------------------------
// enumerated: four small include trees x every file x every offset x the three kinds of failure

type faultTableCase struct {
	Tree   int
	Target string
	After  int
	Kind   int
}

type faultTree struct {
	name   string
	top    string
	origin string
	defttl uint32
	files  map[string]string // texts, the top-level file among them
	want   []string          // the records the intact zone denotes: "owner ttl class type rdata", written by hand
}

var faultTrees = []faultTree{
	{name: "flat", top: "top.db", origin: "example.org.", defttl: 3600,
		files: map[string]string{
			"top.db":   "first A 192.0.2.1\n$INCLUDE hosts.db\nlast A 192.0.2.9\n",
			"hosts.db": "h1 A 192.0.2.11\nh2 A 192.0.2.12\nh3 A 192.0.2.13\n",
		},
		want: []string{"first.example.org. 3600 IN A 192.0.2.1", "h1.example.org. 3600 IN A 192.0.2.11", "h2.example.org. 3600 IN A 192.0.2.12",
			"h3.example.org. 3600 IN A 192.0.2.13", "last.example.org. 3600 IN A 192.0.2.9"}},
	{name: "nested-with-origin", top: "zones/top.db", origin: "example.org.", defttl: 60,
		files: map[string]string{
			"zones/top.db":       "first A 192.0.2.1\n$INCLUDE sub/mid.db\nlast A 192.0.2.9\n",
			"zones/sub/mid.db":   "m1 A 192.0.2.21\n$INCLUDE hosts.db sub ; under sub.example.org.\nm2 A 192.0.2.22\n",
			"zones/sub/hosts.db": "h1 300 A 192.0.2.11\n   AAAA 2001:db8::11",
		},
		want: []string{"first.example.org. 60 IN A 192.0.2.1", "m1.example.org. 60 IN A 192.0.2.21", "h1.sub.example.org. 300 IN A 192.0.2.11",
			"h1.sub.example.org. 300 IN AAAA 2001:db8::11", "m2.example.org. 60 IN A 192.0.2.22", "last.example.org. 60 IN A 192.0.2.9"}},
	{name: "via-generate", top: "top.db", origin: "example.org.", defttl: 3600,
		files: map[string]string{
			"top.db":  "first A 192.0.2.1\n$GENERATE 5-6 $$INCLUDE part.db\nlast A 192.0.2.9\n",
			"part.db": "p1 MX 10 mail\n",
		},
		want: []string{"first.example.org. 3600 IN A 192.0.2.1", "p1.example.org. 3600 IN MX 10 mail.example.org.", "p1.example.org. 3600 IN MX 10 mail.example.org.",
			"last.example.org. 3600 IN A 192.0.2.9"}},
	{name: "devices", top: "top.db", origin: "example.org.", defttl: 3600,
		files: map[string]string{
			"top.db": "$INCLUDE inc/rich.db\nlast A 192.0.2.9\n",
			"inc/rich.db": "$TTL 1h ; an hour\n@ SOA ns hostmaster ( 1 ; serial\n 7200 900 1209600 ; timers\n 300 )\r\n\n; only a comment\n" +
				"$GENERATE 1-2 host-$ A 192.0.2.$\ntxt TXT \"a ; b ( c\" \"second\\\"string\"\n$INCLUDE empty.db\n$ORIGIN sub\nwww 5 CH TXT x",
			"inc/empty.db": "",
		},
		want: []string{"example.org. 3600 IN SOA ns.example.org. hostmaster.example.org. 1 7200 900 1209600 300",
			"host-1.example.org. 3600 IN A 192.0.2.1", "host-2.example.org. 3600 IN A 192.0.2.2",
			"txt.example.org. 3600 IN TXT \"a ; b ( c\" \"second\\\"string\"", "www.sub.example.org. 5 CH TXT \"x\"", "last.example.org. 3600 IN A 192.0.2.9"}},
}

func eachFaultTable(emit func(faultTableCase)) {
	for ti, tr := range faultTrees {
		var names []string
		for n := range tr.files {
			names = append(names, n)
		}
		sort.Strings(names)
		for _, n := range names {
			for k := 0; k <= len(tr.files[n]); k++ {
				for kind := 0; kind <= 2; kind++ {
					if kind == 1 && k == 0 {
						continue // no octets to deliver together with the failure: the same as kind 0
					}
					emit(faultTableCase{Tree: ti, Target: n, After: k, Kind: kind})
				}
			}
		}
	}
}

// recordLine is the hand-written form of a parsed record: header fields and RDATA separated by
// single blanks (the library separates them by tabs; its spelling of the RDATA of the types used
// here - A AAAA MX SOA TXT - is the canonical one).
func recordLines(got []string) []string {
	out := make([]string, len(got))
	for i, s := range got {
		f := strings.SplitN(s, "\t", 5)
		out[i] = strings.Join(f, " ")
	}
	return out
}

func evalFaultTable(c faultTableCase) error {
	tr := faultTrees[c.Tree]
	zc := zoneCase{Zone: zm.Zone{FileName: tr.top, HasDefTTL: true, DefTTL: tr.defttl, Files: map[string][]zm.Item{}}, OriginText: tr.origin, Reader: c.After % 3}
	for n := range tr.files {
		if n != tr.top {
			zc.Zone.Files[n] = nil // only the names matter here: parseZone builds the include FS from the texts
		}
	}
	show := func() string { return showRendering(&zc, rendering{Files: tr.files}) }
	parse := func(plan *faultPlan) ([]string, error) {
		cc := zc
		cc.fault = plan
		rrs, err := parseZone(&cc, tr.files, len(tr.want)+8)
		var got []string
		for _, rr := range rrs {
			got = append(got, rr.String())
		}
		return recordLines(got), err
	}
	// control
	got, perr := parse(nil)
	if perr != nil || fmt.Sprint(got) != fmt.Sprint(tr.want) {
		return pbt.Errf("tree %s without a fault: got %q, %v; want %q\n%s", tr.name, got, perr, tr.want, show())
	}
	plan := &faultPlan{File: c.Target, After: c.After, Kind: c.Kind}
	got, perr = parse(plan)
	where := fmt.Sprintf("tree %s: Read of %q fails after %d of its %d octets (kind %d)", tr.name, c.Target, c.After, len(tr.files[c.Target]), c.Kind)
	if plan.fired == 0 {
		return pbt.Errf("harness: %s, but the parser never read that far (%d records, %v)\n%s", where, len(got), perr, show())
	}
	if perr == nil {
		return pbt.Errf("%s, yet the parse ends with Err() == nil after %d of the %d records of the zone: %q\n%s", where, len(got), len(tr.want), got, show())
	}
	if len(got) > len(tr.want) || fmt.Sprint(got) != fmt.Sprint(tr.want[:len(got)]) {
		return pbt.Errf("%s: the records returned before the error (%v) are not a prefix of the zone: %q, want a prefix of %q\n%s", where, perr, got, tr.want, show())
	}
	return nil
}

func checkFaultTable(c faultTableCase) error {
	if c.Tree < 0 || c.Tree >= len(faultTrees) || c.Kind < 0 || c.Kind > 2 {
		pbt.Note(nil, false, "invalid-model")
		return nil
	}
	text, ok := faultTrees[c.Tree].files[c.Target]
	if !ok || c.After < 0 || c.After > len(text) {
		pbt.Note(nil, false, "invalid-model")
		return nil
	}
	tr := faultTrees[c.Tree]
	pos := "fault:in-the-middle"
	switch c.After {
	case 0:
		pos = "fault:at-start"
	case len(text):
		pos = "fault:where-the-end-was-due"
	}
	file := "fault:in-included-file"
	if c.Target == tr.top {
		file = "fault:in-top-level-file"
	}
	pbt.Note([]byte(fmt.Sprint(c)), c.Target != tr.top, "fault-table:tree="+tr.name, fmt.Sprintf("fault:kind=%d", c.Kind), pos, file)
	return evalFaultTable(c)
}

func init() {
	pbt.Register(pbt.Sub[incFaultCase]{Name: "include-read-fault", Weight: 1, Gen: genIncFault, Check: noShrink(checkIncFault)})
	pbt.RegisterEnum(pbt.Enum[faultTableCase]{Name: "include-read-fault-table", Exhaustive: true, Each: eachFaultTable, Check: noShrink(checkFaultTable)})
}
