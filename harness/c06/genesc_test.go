package c06

import (
	"fmt"
	"strings"

	"pgregory.net/rapid"

	"verif/harness/pbt"
	zm "verif/harness/zonemodel"
)

// $GENERATE templates whose literal text carries backslash escapes (\. \" \\ \; \DDD ...).
//
// The statement replaces "every $ and ${offset,width,base}" by the iterator value and nothing
// else, and the directive "expands to one record per step": whatever else stands in the template
// reaches the record of each step as it would in a record written by hand. The expectation is
// therefore computed on octets (label octets, character-string octets) with the iterator text
// substituted, and handed to the zone model as a list of explicit records; the template is the
// same octets written with generated spellings (plain where allowed, backslash + octet, \DDD).
//
// The zone model of harness/zonemodel keeps templates free of backslashes (its interpreter reads
// the expanded text back), which is why this class lives in its own sub-check.

const kGenEsc = "generate-drops-escapes"

// a template that ends in a lone backslash: the backslash is not handed on and the first octet of
// the next step's line is dropped instead
const kGenDangling = "generate-trailing-backslash"

const (
	geLit    = 0 // literal octets
	geIter   = 1 // $
	geMod    = 2 // ${offset[,width[,base]]}
	geDollar = 3 // a literal dollar sign, written \$ or $$
)

type gePart struct {
	Kind    int
	Oct     []byte `json:",omitempty"`
	Spell   []int  `json:",omitempty"` // per octet: 0 as it is where that is allowed, 1 backslash + the octet, 2 \DDD
	Offset  int64  `json:",omitempty"`
	Width   int    `json:",omitempty"`
	Base    string `json:",omitempty"`
	NFields int    `json:",omitempty"`
	Doubled bool   `json:",omitempty"` // geDollar: written $$ (where that is unambiguous) instead of \$
}

type genEscCase struct {
	Origin            [][]byte
	DefTTL            uint32
	Start, Stop, Step int64
	Owner             [][]gePart // labels of the left-hand side
	OwnerAbs          bool
	HasTTL            bool
	TTL               uint32
	HasClass          bool
	Class             uint16
	Type              uint16     // TXT, CNAME, NS, PTR, MX
	Pref              uint16     // MX
	Target            [][]gePart `json:",omitempty"` // name types: labels of the right-hand side
	TargetAbs         bool
	Strs              [][]gePart `json:",omitempty"` // TXT: the quoted strings
	Reader            int
	// Dangling (name types only): the right-hand side is followed by a lone backslash, the last
	// octet of the directive's line. Nothing defines what such a line means; what is asserted is
	// that the directive and its expansion written by hand (every step's line with that backslash
	// at its end) have the same outcome - the same records and an error in both or in neither.
	Dangling bool `json:",omitempty"`
}

func geDigit(b byte) bool { return b >= '0' && b <= '9' }

// gePlainOK: the octet may stand in the template as it is. ctx 'n' = in a name (outside quotes),
// 'q' = inside a quoted string.
func gePlainOK(b byte, ctx byte) bool {
	if ctx == 'q' {
		return b >= ' ' && b <= '~' && strings.IndexByte("\"\\${}", b) < 0
	}
	return b >= 'a' && b <= 'z' || b >= 'A' && b <= 'Z' || geDigit(b) || b == '-' || b == '_'
}

// geSpellOct writes one literal octet; kind is "" when it stands as it is, else the kind of escape
// that was needed or chosen ("\c" backslash + octet, "\DDD").
func geSpellOct(b byte, how int, ctx byte) (txt string, kind string) {
	// backslash + the octet itself: any printable octet but a digit; '$' and '#' are left to \DDD
	// (\$ is the template's own literal dollar, \# at the start of RDATA announces RFC 3597 syntax)
	charOK := b >= ' ' && b <= '~' && !geDigit(b) && b != '$' && b != '#'
	switch {
	case how == 0 && gePlainOK(b, ctx):
		return string(b), ""
	case how <= 1 && charOK:
		return "\\" + string(b), "\\c"
	}
	return fmt.Sprintf("\\%03d", b), "\\DDD"
}

type geStats struct {
	escapes    map[string]bool // kinds of escapes written
	nextToIter bool            // an escape stands directly before or after an iterator
}

// geTemplate writes a run of parts; geExpand gives the octets of step v.
func geTemplate(parts []gePart, ctx byte, st *geStats) string {
	return geTemplateAt(parts, ctx, st, nil)
}

// geTemplateAt with at != nil writes the text of one step instead of the template: the iterators
// replaced by their value, the literal dollar as a plain "$", every other character as in the
// template (the same spellings of the literal octets).
func geTemplateAt(parts []gePart, ctx byte, st *geStats, at *int64) string {
	var sb strings.Builder
	lastEsc, lastIter := false, false
	for i, p := range parts {
		switch p.Kind {
		case geLit:
			for j, b := range p.Oct {
				how := 0
				if j < len(p.Spell) {
					how = p.Spell[j]
				}
				t, k := geSpellOct(b, how, ctx)
				if k != "" {
					st.escapes[k] = true
					if lastIter {
						st.nextToIter = true
					}
				}
				lastEsc, lastIter = k != "", false
				sb.WriteString(t)
			}
		case geIter:
			if at != nil {
				sb.Write(geExpand([]gePart{p}, *at))
			} else {
				sb.WriteByte('$')
			}
			st.nextToIter = st.nextToIter || lastEsc
			lastEsc, lastIter = false, true
		case geMod:
			base := p.Base
			if base == "" {
				base = "d"
			}
			switch {
			case at != nil:
				sb.Write(geExpand([]gePart{p}, *at))
			default:
				switch p.NFields {
				case 1:
					fmt.Fprintf(&sb, "${%d}", p.Offset)
				case 2:
					fmt.Fprintf(&sb, "${%d,%d}", p.Offset, p.Width)
				default:
					fmt.Fprintf(&sb, "${%d,%d,%s}", p.Offset, p.Width, base)
				}
			}
			st.nextToIter = st.nextToIter || lastEsc
			lastEsc, lastIter = false, true
		case geDollar:
			// after a bare iterator "$$" would read as (literal, iterator)
			if at != nil {
				sb.WriteByte('$')
			} else if p.Doubled && !(i > 0 && parts[i-1].Kind == geIter) {
				sb.WriteString("$$")
			} else {
				sb.WriteString(`\$`)
			}
			lastEsc, lastIter = false, false
		}
	}
	return sb.String()
}

func geExpand(parts []gePart, v int64) []byte {
	var out []byte
	for _, p := range parts {
		switch p.Kind {
		case geLit:
			out = append(out, p.Oct...)
		case geIter:
			out = append(out, zm.Template{{Kind: zm.TIter}}.Expand(v)...)
		case geMod:
			out = append(out, zm.Template{{Kind: zm.TIterMod, Offset: p.Offset, Width: p.Width, Base: p.Base, NFields: p.NFields}}.Expand(v)...)
		case geDollar:
			out = append(out, '$')
		}
	}
	return out
}

func geValidParts(parts []gePart, start int64) bool {
	for i, p := range parts {
		// "$$" is the literal dollar: a bare iterator cannot be followed by another iterator
		if i > 0 && parts[i-1].Kind == geIter && (p.Kind == geIter || p.Kind == geMod) {
			return false
		}
		switch p.Kind {
		case geLit:
			if len(p.Oct) == 0 || len(p.Oct) > 40 {
				return false
			}
			for _, b := range p.Oct {
				if b == '$' {
					return false // a literal dollar is its own kind of part
				}
			}
			for _, h := range p.Spell {
				if h < 0 || h > 2 {
					return false
				}
			}
		case geIter, geDollar:
		case geMod:
			if p.NFields < 1 || p.NFields > 3 || p.Width < 0 || p.Width > 9 || p.Offset < -start || p.Offset > 1000 {
				return false
			}
			if (p.NFields < 3 && p.Base != "" && p.Base != "d") || (p.NFields < 2 && p.Width != 0) {
				return false
			}
			if strings.IndexByte("doxX", (p.Base + "d")[0]) < 0 || len(p.Base) > 1 {
				return false
			}
		default:
			return false
		}
	}
	return true
}

func geValid(c *genEscCase) bool {
	if c.Step < 1 || c.Start < 0 || c.Stop < c.Start || c.Stop > 100000 || (c.Stop-c.Start)/c.Step > 40 {
		return false
	}
	if len(c.Owner) < 1 || len(c.Owner) > 4 || len(c.Target) > 4 || len(c.Strs) > 4 || len(c.Origin) < 1 {
		return false
	}
	if c.Class == 0 && c.HasClass {
		return false
	}
	labels := append(append([][]gePart{}, c.Owner...), c.Target...)
	for _, l := range labels {
		if len(l) < 1 || len(l) > 6 || !geValidParts(l, c.Start) {
			return false
		}
	}
	// a literal dollar at the very start of the line would spell a directive
	if c.Owner[0][0].Kind == geDollar {
		return false
	}
	for _, s := range c.Strs {
		if len(s) > 6 || !geValidParts(s, c.Start) {
			return false
		}
	}
	switch c.Type {
	case zm.TTXT:
		return len(c.Strs) >= 1 && len(c.Target) == 0 && !c.Dangling
	case zm.TCNAME, zm.TNS, zm.TPTR, zm.TMX:
		return len(c.Target) >= 1 && len(c.Strs) == 0
	}
	return false
}

// geTexts: left-hand and right-hand side of the directive.
func geTexts(c *genEscCase, st *geStats, at *int64) (lhs, rhs string) {
	name := func(labels [][]gePart, abs bool) string {
		var ls []string
		for _, l := range labels {
			ls = append(ls, geTemplateAt(l, 'n', st, at))
		}
		s := strings.Join(ls, ".")
		if abs {
			s += "."
		}
		return s
	}
	lhs = name(c.Owner, c.OwnerAbs)
	switch c.Type {
	case zm.TTXT:
		var ss []string
		for _, s := range c.Strs {
			ss = append(ss, `"`+geTemplateAt(s, 'q', st, at)+`"`)
		}
		rhs = strings.Join(ss, " ")
	case zm.TMX:
		rhs = fmt.Sprintf("%d %s", c.Pref, name(c.Target, c.TargetAbs))
	default:
		rhs = name(c.Target, c.TargetAbs)
	}
	if c.Dangling {
		rhs += `\`
	}
	return
}

// geZone: the records the directive denotes, written out as explicit records of the zone model,
// and a record after the directive.
func geZone(c *genEscCase) *zm.Zone {
	z := &zm.Zone{FileName: "genesc.db", HasOrigin: true, Origin: c.Origin, HasDefTTL: true, DefTTL: c.DefTTL}
	mname := func(labels [][]gePart, abs bool, v int64) zm.MName {
		m := zm.MName{Kind: zm.Rel}
		if abs {
			m.Kind = zm.Abs
		}
		for _, l := range labels {
			m.Labels = append(m.Labels, geExpand(l, v))
		}
		return m
	}
	for v := c.Start; v <= c.Stop; v += c.Step {
		it := zm.Item{Kind: zm.KRec, Owner: mname(c.Owner, c.OwnerAbs, v), HasTTL: c.HasTTL, TTL: c.TTL, HasClass: c.HasClass, Class: c.Class}
		it.RD = zm.RData{Type: c.Type}
		switch c.Type {
		case zm.TTXT:
			for _, s := range c.Strs {
				b := geExpand(s, v)
				if b == nil {
					b = []byte{}
				}
				it.RD.Strs = append(it.RD.Strs, b)
			}
		case zm.TMX:
			it.RD.Nums = []uint32{uint32(c.Pref)}
			it.RD.Names = []zm.MName{mname(c.Target, c.TargetAbs, v)}
		default:
			it.RD.Names = []zm.MName{mname(c.Target, c.TargetAbs, v)}
		}
		z.Items = append(z.Items, it)
	}
	z.Items = append(z.Items, zm.Item{Kind: zm.KRec, Owner: zm.MName{Kind: zm.Abs, Labels: [][]byte{[]byte("after"), []byte("example")}},
		HasTTL: true, TTL: 5, HasClass: true, Class: 1, RD: zm.RData{Type: zm.TA, IP: []byte{192, 0, 2, 9}}})
	return z
}

const geAfter = "after.example. 5 IN A 192.0.2.9\n"

func geDirective(c *genEscCase, st *geStats) string {
	rng := fmt.Sprintf("%d-%d", c.Start, c.Stop)
	if c.Step != 1 {
		rng += fmt.Sprintf("/%d", c.Step)
	}
	return "$GENERATE " + rng + " " + geLine(c, st, nil) + geAfter
}

// geByHand: the lines of all steps, each with the iterator values put into the template's text.
func geByHand(c *genEscCase) string {
	var sb strings.Builder
	for v := c.Start; v <= c.Stop; v += c.Step {
		at := v
		sb.WriteString(geLine(c, &geStats{escapes: map[string]bool{}}, &at))
	}
	return sb.String() + geAfter
}

// geLine: "lhs [ttl] [class] type rhs" and the line end, as template (at == nil) or for one step.
func geLine(c *genEscCase, st *geStats, at *int64) string {
	lhs, rhs := geTexts(c, st, at)
	toks := []string{lhs}
	if c.HasTTL {
		toks = append(toks, fmt.Sprint(c.TTL))
	}
	if c.HasClass {
		toks = append(toks, zm.ClassText(c.Class))
	}
	toks = append(toks, zm.TypeText(c.Type), rhs)
	return strings.Join(toks, " ") + "\n"
}

func evalGenEsc(c *genEscCase, st *geStats) error {
	z := geZone(c)
	den, err := zm.Denote(z)
	if err != nil || den.Err != "" {
		return errGeInvalid
	}
	for _, it := range z.Items {
		for _, s := range it.RD.Strs {
			if len(s) > 255 { // a character-string holds at most 255 octets
				return errGeInvalid
			}
		}
	}
	text := geDirective(c, st)
	if c.Dangling {
		return evalDangling(c, z, text)
	}
	zc := zoneCase{Zone: *z, OriginText: zm.SpellMName(zm.MName{Kind: zm.Abs, Labels: c.Origin}), Reader: c.Reader, Renderings: []rendering{
		{Files: map[string]string{z.FileName: text}},
		{Files: map[string]string{z.FileName: plainText(z, den)}}, // the same records written by hand
	}}
	return evalZone(&zc, den)
}

// evalDangling: the directive whose line ends in a lone backslash against its expansion written
// by hand: every step's line is the template's own text with the iterator values put in, so the
// octets before the backslash are spelled alike on both sides.
func evalDangling(c *genEscCase, z *zm.Zone, directive string) error {
	steps := int((c.Stop-c.Start)/c.Step) + 1
	hand := geByHand(c)
	zc := zoneCase{Zone: *z, OriginText: zm.SpellMName(zm.MName{Kind: zm.Abs, Labels: c.Origin}), Reader: c.Reader}
	show := func() string {
		return showRendering(&zc, rendering{Files: map[string]string{z.FileName: directive}}) + showRendering(&zc, rendering{Files: map[string]string{z.FileName: hand}})
	}
	gotD, errD := parseZone(&zc, map[string]string{z.FileName: directive}, steps+8)
	gotH, errH := parseZone(&zc, map[string]string{z.FileName: hand}, steps+8)
	if (errD == nil) != (errH == nil) {
		return pbt.Errf("a $GENERATE line that ends in a lone backslash: the directive gives %d records and the error %v, its expansion written by hand %d records and the error %v\n%s", len(gotD), errD, len(gotH), errH, show())
	}
	if err := zm.SameRecords(gotH, gotD); err != nil {
		return pbt.Errf("a $GENERATE line that ends in a lone backslash: its expansion written by hand and the directive disagree: %v\n%s", err, show())
	}
	return nil
}

var errGeInvalid = fmt.Errorf("model outside the domain")

func checkGenEsc(c genEscCase) error {
	if c.Reader < 0 || c.Reader > 2 || !geValid(&c) {
		pbt.Note(nil, false, "invalid-model")
		return nil
	}
	st := &geStats{escapes: map[string]bool{}}
	err := evalGenEsc(&c, st)
	if err == errGeInvalid {
		pbt.Note(nil, false, "invalid-model")
		return nil
	}
	classes := []string{"genesc:type=" + zm.TypeText(c.Type), fmt.Sprintf("genesc:steps=%s", bucket(int((c.Stop-c.Start)/c.Step)+1))}
	for _, k := range []string{"\\c", "\\DDD"} {
		if st.escapes[k] {
			classes = append(classes, "genesc:escape="+k)
		}
	}
	if len(st.escapes) == 0 {
		classes = append(classes, "genesc:no-escape")
	}
	if st.nextToIter {
		classes = append(classes, "genesc:escape-next-to-iterator")
	}
	if c.Dangling {
		classes = append(classes, "genesc:trailing-backslash")
	}
	if p := c.Owner[0][0]; p.Kind == geLit && keywordLike(string(p.Oct)) {
		classes = append(classes, "genesc:owner-begins-with-keyword-like-word")
		if u := strings.ToUpper(string(p.Oct)); strings.HasPrefix(u, "TYPE") || strings.HasPrefix(u, "CLASS") {
			classes = append(classes, "genesc:owner-begins-with-TYPE-or-CLASS")
		}
	}
	all := append(append(append([][]gePart{}, c.Owner...), c.Target...), c.Strs...)
	nontrivial := len(st.escapes) > 0 || c.Dangling
	for _, l := range all {
		for _, p := range l {
			switch p.Kind {
			case geMod:
				classes = append(classes, "genesc:modifier")
				nontrivial = true
			case geDollar:
				classes = append(classes, "genesc:literal-dollar")
				nontrivial = true
			case geIter:
				nontrivial = true
			}
		}
	}
	text := geDirective(&c, &geStats{escapes: map[string]bool{}})
	seen := map[string]bool{}
	var uniq []string
	for _, k := range classes {
		if !seen[k] {
			seen[k] = true
			uniq = append(uniq, k)
		}
	}
	pbt.Note([]byte(text), nontrivial, uniq...)
	if len(st.escapes) > 0 {
		pbt.Sample("generate-with-escapes", text)
	}
	return err
}

// ---------------------------------------------------------------------------------------------
// generator

var geNameOctets = []byte("abzAZ09-_.. ;;()\"\\@*'#{}\t\x00\x7f\xff\xe9,:/=+!")
var geTxtOctets = []byte("abz09 ;()\"\"\\\\@.'#{}\t\x00\n\x7f\xff\xe9,:/=+!-_")

func genGenEsc(t *rapid.T) genEscCase {
	n := func(k int, label string) int {
		if k <= 1 {
			return 0
		}
		return rapid.IntRange(0, k-1).Draw(t, label)
	}
	// the class "a backslash escape other than \$ in the template" is excluded while the finding
	// is listed and reproduces
	noEsc := pbt.Known(kGenEsc)
	replaced := false
	c := genEscCase{Reader: n(3, "reader")}
	c.Origin = [][][]byte{{[]byte("example"), []byte("org")}, {[]byte("example")}, {[]byte("a.b"), []byte("test")}}[n(3, "origin")]
	c.DefTTL = uint32(n(100000, "defttl"))
	c.Start = int64(n(40, "start"))
	c.Step = int64(n(4, "step") + 1)
	c.Stop = c.Start + int64(n(10, "len"))
	if n(2, "hasttl") == 0 {
		c.HasTTL, c.TTL = true, uint32(n(100000, "ttl"))
	}
	if n(3, "hasclass") == 0 {
		c.HasClass, c.Class = true, []uint16{1, 1, 3, 4}[n(4, "class")]
	}
	lit := func(ctx byte) gePart {
		p := gePart{Kind: geLit}
		alpha := geNameOctets
		if ctx == 'q' {
			alpha = geTxtOctets
		}
		for k := n(4, "litn") + 1; k > 0; k-- {
			b := alpha[n(len(alpha), "oct")]
			if n(12, "anyoct") == 0 {
				b = byte(n(256, "octv"))
			}
			if b == '$' {
				b = 'd'
			}
			how := []int{0, 0, 1, 2}[n(4, "how")]
			if noEsc {
				if _, k := geSpellOct(b, how, ctx); k != "" {
					// replaced draw: an octet that can stand as it is, written as it is
					replaced = true
					b, how = "ab09-_"[n(6, "plain")], 0
				}
			}
			p.Oct = append(p.Oct, b)
			p.Spell = append(p.Spell, how)
		}
		return p
	}
	iter := func() gePart {
		switch n(4, "itk") {
		case 0:
			p := gePart{Kind: geMod, NFields: n(3, "nf") + 1, Base: "d"}
			p.Offset = int64(n(30, "off")) - min(c.Start, 10)
			if p.NFields >= 2 {
				p.Width = n(6, "width")
			}
			if p.NFields == 3 {
				p.Base = []string{"d", "o", "x", "X"}[n(4, "base")]
			}
			return p
		case 1:
			return gePart{Kind: geDollar, Doubled: n(2, "dd") == 0}
		}
		return gePart{Kind: geIter}
	}
	run := func(ctx byte, first bool) []gePart {
		var ps []gePart
		for k := n(3, "parts") + 1; k > 0; k-- {
			if n(5, "pk") < 3 {
				ps = append(ps, lit(ctx))
			} else {
				ps = append(ps, iter())
			}
		}
		if first && ps[0].Kind == geDollar {
			ps[0] = lit(ctx)
		}
		for i := 1; i < len(ps); i++ {
			if ps[i-1].Kind == geIter && (ps[i].Kind == geIter || ps[i].Kind == geMod) {
				ps[i] = lit(ctx) // "$$" would be the literal dollar
			}
		}
		return ps
	}
	name := func(first bool) (labels [][]gePart, abs bool) {
		for k := n(2, "labels") + 1; k > 0; k-- {
			labels = append(labels, run('n', first && len(labels) == 0))
		}
		abs = n(4, "abs") == 0
		if abs {
			labels = append(labels, []gePart{{Kind: geLit, Oct: []byte("gen"), Spell: []int{0, 0, 0}}}, []gePart{{Kind: geLit, Oct: []byte("example"), Spell: make([]int, 7)}})
		}
		return
	}
	c.Owner, c.OwnerAbs = name(true)
	// the template begins with a word that looks like a type, a class, TYPEnnn / CLASSnnn (or merely
	// begins like them), a TTL or a directive name: in a template it is part of the owner name
	keyworded := func(labels [][]gePart) {
		w := templateWords[n(len(templateWords), "kww")]
		p := gePart{Kind: geLit, Oct: []byte(w), Spell: make([]int, len(w))}
		if labels[0][0].Kind == geLit {
			labels[0][0] = p
		} else {
			labels[0] = append([]gePart{p}, labels[0]...)
		}
	}
	if n(4, "kwowner") == 0 {
		keyworded(c.Owner)
	}
	c.Type = []uint16{zm.TTXT, zm.TTXT, zm.TCNAME, zm.TNS, zm.TPTR, zm.TMX}[n(6, "type")]
	switch c.Type {
	case zm.TTXT:
		for k := n(2, "strs") + 1; k > 0; k-- {
			if n(8, "empty") == 0 {
				c.Strs = append(c.Strs, []gePart{})
			} else {
				c.Strs = append(c.Strs, run('q', false))
			}
		}
	case zm.TMX:
		c.Pref = uint16(n(65536, "pref"))
		fallthrough
	default:
		c.Target, c.TargetAbs = name(false)
		if n(8, "kwtarget") == 0 {
			keyworded(c.Target)
		}
	}
	if c.Type != zm.TTXT && n(6, "dangling") == 0 {
		// excluded while the finding is listed and reproduces
		if pbt.Known(kGenDangling) {
			pbt.Excluded(kGenDangling)
		} else {
			c.Dangling = true
		}
	}
	if replaced {
		pbt.Excluded(kGenEsc)
	}
	return c
}

func init() {
	pbt.Register(pbt.Sub[genEscCase]{Name: "generate-escapes", Weight: 4, Gen: genGenEsc, Check: noShrink(checkGenEsc)})

	// side remark of a round-7 breaker: the $GENERATE reader drops every backslash escape other
	// than \$ together with the escaped character
	pbt.Probe(kGenEsc, func() error {
		l := func(s string, spell ...int) gePart { return gePart{Kind: geLit, Oct: []byte(s), Spell: spell} }
		org := [][]byte{[]byte("example"), []byte("org")}
		for _, how := range []int{1, 2} {
			// $GENERATE 1-1 a\.b$ TXT "x\"y"   and   $GENERATE 1-1 a\046b$ TXT "x\034y"
			c := genEscCase{Origin: org, DefTTL: 3600, Start: 1, Stop: 1, Step: 1, Type: zm.TTXT,
				Owner: [][]gePart{{l("a.b", 0, how, 0), {Kind: geIter}}},
				Strs:  [][]gePart{{l(`x"y`, 0, how, 0)}}}
			if !geValid(&c) {
				return fmt.Errorf("harness: probe case invalid")
			}
			if err := evalGenEsc(&c, &geStats{escapes: map[string]bool{}}); err != nil {
				return oneLine(err)
			}
		}
		return nil
	})

	// side remark of a round-9 breaker: a lone backslash at the end of a $GENERATE line carries
	// over to the next step ("$GENERATE 1-2 a$ CNAME foo\" gives a1 and 2, written by hand both
	// lines are refused)
	pbt.Probe(kGenDangling, func() error {
		l := func(s string) gePart { return gePart{Kind: geLit, Oct: []byte(s), Spell: make([]int, len(s))} }
		c := genEscCase{Origin: [][]byte{[]byte("example"), []byte("org")}, DefTTL: 5, Start: 1, Stop: 2, Step: 1, Type: zm.TCNAME,
			Owner: [][]gePart{{l("a"), {Kind: geIter}}}, Target: [][]gePart{{l("foo")}}, Dangling: true}
		if !geValid(&c) {
			return fmt.Errorf("harness: probe case invalid")
		}
		return oneLine(evalGenEsc(&c, &geStats{escapes: map[string]bool{}}))
	})
}
