package c06

import (
	"fmt"
	"io"
	"io/fs"
	"math"
	"os"
	"path"
	"path/filepath"
	"sort"
	"strings"
	"testing/fstest"
	"testing/iotest"
	"time"

	"github.com/miekg/dns"
	"pgregory.net/rapid"

	"verif/harness/pbt"
	zm "verif/harness/zonemodel"
)

// Known findings of this property (see KNOWN_FINDINGS.txt and the probes at the end).
const (
	kIPSECKEY = "ipseckey-eats-line"
	kGenTTL   = "generate-ttl"
	kComment  = "comment-adjacent-token"
	kRrtype   = "comment-resets-rrtype"
	kDirArg   = "directive-arg-keyword"
	kEscOnly  = "escaped-only-token"
	kMerge    = "paren-newline-merges-tokens"
	kCom511   = "comment-511-in-parens"
)

// ---------------------------------------------------------------------------------------------
// the case: a zone model, parser options, and >= 2 renderings

type rendering struct {
	Files map[string]string // file name -> text
}

type zoneCase struct {
	Zone       zm.Zone
	OriginText string // initial origin as handed to NewZoneParser ("" = none)
	Reader     int    // 0 strings.Reader (io.ByteReader), 1 plain io.Reader, 2 one byte per Read
	// only when the zone has no $INCLUDE: the include gate may be configured either way
	AllowAnyway bool
	FSAnyway    bool
	UseOS       bool // lay the include tree out as real files under a scratch directory (no include FS)
	Renderings  []rendering
	Classes     []string // rendering devices and line shapes used (histogram only)
	// fault (sub-check include-read-fault, set by its oracle only): Read of one file fails
	fault *faultPlan
}

type onlyReader struct{ r io.Reader }

func (o onlyReader) Read(p []byte) (int, error) { return o.r.Read(p) }

// parseZone runs the library parser over one rendering and collects everything it returns.
const decoyText = "decoy.invalid. 300 IN A 10.9.9.9\n"

// decoys: files that no $INCLUDE of the model names, with the base name of a model file, in
// every other directory the tree knows (directories of files, their ancestors, directories as
// written in $INCLUDE lines). A parser that resolves a relative path against the wrong directory
// reads one of them (or nothing).
func decoys(z *zm.Zone) []string {
	dirs := map[string]bool{".": true}
	addDir := func(d string) {
		for d != "." && d != "/" && d != "" && !strings.HasPrefix(d, "..") {
			dirs[d] = true
			d = path.Dir(d)
		}
	}
	names := z.FileNames()
	for _, f := range names {
		addDir(path.Dir(strings.TrimLeft(path.Clean(f), "/")))
		for _, it := range z.FileItems(f) {
			if it.Kind == zm.KInclude {
				addDir(path.Dir(strings.TrimLeft(path.Clean(it.File), "/")))
			}
		}
	}
	have := map[string]bool{}
	for _, f := range names {
		have[f] = true
	}
	var ds []string
	for d := range dirs {
		ds = append(ds, d)
	}
	sort.Strings(ds)
	var out []string
	for _, f := range names[1:] {
		for _, d := range ds {
			if c := path.Join(d, path.Base(f)); !have[c] {
				have[c] = true
				out = append(out, c)
			}
		}
	}
	return out
}

// osEligible: the include tree can be laid out under a scratch directory and read through
// os.Open (no $INCLUDE names an absolute path).
func osEligible(z *zm.Zone) bool {
	for _, f := range z.FileNames() {
		for _, it := range z.FileItems(f) {
			if it.Kind != zm.KInclude {
				continue
			}
			if strings.HasPrefix(it.File, "/") {
				return false
			}
			// belt and braces: the path must stay inside the model's root
			dir := path.Dir(strings.TrimLeft(path.Clean(f), "/"))
			if j := path.Join(dir, it.File); j == ".." || strings.HasPrefix(j, "../") {
				return false
			}
		}
	}
	return len(z.Files) > 0
}

func parseZone(c *zoneCase, files map[string]string, limit int) ([]dns.RR, error) {
	top := files[c.Zone.FileName]
	var rd io.Reader = strings.NewReader(top)
	if c.fault != nil && c.fault.File == c.Zone.FileName {
		rd = &faultReader{r: rd, plan: c.fault, left: c.fault.After}
		if c.Reader == 0 {
			rd = onlyReader{rd}
		}
	}
	switch c.Reader {
	case 1:
		rd = onlyReader{rd}
	case 2:
		rd = iotest.OneByteReader(onlyReader{rd})
	}
	fileName := c.Zone.FileName
	useOS := c.UseOS && osEligible(&c.Zone)
	if useOS {
		// real files under a scratch directory; includes are resolved by the parser's os.Open
		// path. Every path stays inside the scratch directory ("../" never leaves the model's
		// root, absolute paths are excluded by osEligible).
		base := os.Getenv("VERIF_OUT") // the driver's scratch directory (wiped after the run)
		if base != "" {
			if err := os.MkdirAll(base, 0o755); err != nil {
				base = ""
			}
		}
		root, err := os.MkdirTemp(base, "c06-os")
		if err != nil {
			return nil, fmt.Errorf("harness: %v", err)
		}
		defer os.RemoveAll(root)
		write := func(name, txt string) error {
			full := filepath.Join(root, filepath.FromSlash(name))
			if err := os.MkdirAll(filepath.Dir(full), 0o755); err != nil {
				return err
			}
			return os.WriteFile(full, []byte(txt), 0o644)
		}
		for name, txt := range files {
			if err := write(name, txt); err != nil {
				return nil, fmt.Errorf("harness: %v", err)
			}
		}
		for _, d := range decoys(&c.Zone) {
			if err := write(d, decoyText); err != nil {
				return nil, fmt.Errorf("harness: %v", err)
			}
		}
		fileName = filepath.Join(root, filepath.FromSlash(c.Zone.FileName))
	}
	zp := dns.NewZoneParser(rd, c.OriginText, fileName)
	if c.Zone.HasDefTTL {
		zp.SetDefaultTTL(c.Zone.DefTTL)
	}
	if len(c.Zone.Files) > 0 || c.AllowAnyway {
		zp.SetIncludeAllowed(true)
	}
	if !useOS && (len(c.Zone.Files) > 0 || c.FSAnyway) {
		m := fstest.MapFS{}
		for name, txt := range files {
			if name != c.Zone.FileName {
				m[name] = &fstest.MapFile{Data: []byte(txt)}
			}
		}
		for _, d := range decoys(&c.Zone) {
			m[d] = &fstest.MapFile{Data: []byte(decoyText)}
		}
		var fsys fs.FS = m
		if c.fault != nil {
			fsys = faultFS{FS: m, plan: c.fault}
		}
		zp.SetIncludeFS(fsys)
	}
	// the parse runs under a watchdog (orders of magnitude above its normal cost): a parser that
	// does not come back is a violation, not a reason for the whole run to time out
	type result struct {
		out []dns.RR
		err error
	}
	done := make(chan result, 1)
	go func() {
		var r result
		defer func() {
			if x := recover(); x != nil {
				r.err = fmt.Errorf("panic: %v", x)
			}
			done <- r
		}()
		for rr, ok := zp.Next(); ok; rr, ok = zp.Next() {
			r.out = append(r.out, rr)
			if len(r.out) > limit {
				r.err = fmt.Errorf("the parser keeps returning records (stopped after %d)", limit)
				return
			}
		}
		r.err = zp.Err()
	}()
	// 20 s for ordinary zones (they parse in milliseconds), 2 s more per expected 10 000 records
	wd := 20*time.Second + time.Duration(limit/10000)*2*time.Second
	select {
	case r := <-done:
		return r.out, r.err
	case <-time.After(wd):
		hangSeen = true
		return nil, fmt.Errorf("the parser did not return within %v", wd)
	}
}

// hangSeen is set when the watchdog fired during the current case: the violation is then reported
// as it is (pbt.NoShrink), every further execution would leave another spinning goroutine behind.
var hangSeen bool

func noShrink[C any](f func(C) error) func(C) error {
	return func(c C) error {
		hangSeen = false
		err := f(c)
		if err != nil && hangSeen {
			return pbt.NoShrink{Err: err}
		}
		return err
	}
}

func nontrivialZone(z *zm.Zone) bool {
	check := func(items []zm.Item) bool {
		for _, it := range items {
			if it.Kind != zm.KRec {
				return true
			}
			if it.Owner.Kind != zm.Abs || !it.HasTTL || !it.HasClass {
				return true
			}
			for _, n := range it.RD.Names {
				if n.Kind != zm.Abs {
					return true
				}
			}
		}
		return false
	}
	if check(z.Items) {
		return true
	}
	for _, f := range z.Files {
		if check(f) {
			return true
		}
	}
	return false
}

// modelClasses: which model features the zone has (histogram only).
func modelClasses(z *zm.Zone) []string {
	seen := map[string]bool{}
	var walk func(file string, items []zm.Item)
	walk = func(file string, items []zm.Item) {
		for _, it := range items {
			switch it.Kind {
			case zm.KRec:
				if it.RD.Sample != "" {
					seen["rec:sample"] = true
				} else {
					seen["rec:"+zm.TypeText(it.RD.Type)] = true
				}
			case zm.KOrigin:
				seen["dir:$ORIGIN"] = true
				if it.Origin.Kind == zm.Rel {
					seen["dir:$ORIGIN-relative"] = true
				}
			case zm.KTTL:
				seen["dir:$TTL"] = true
			case zm.KGenerate:
				g := it.Gen
				seen["dir:$GENERATE"] = true
				seen["gen:type="+zm.TypeText(g.Type)] = true
				if g.Step > 1 {
					seen["gen:step>1"] = true
				}
				if !g.HasTTL {
					seen["gen:ttl-omitted"] = true
				}
				if g.Steps() == zm.MaxGenerateSteps {
					seen["gen:65536-steps"] = true
				}
				if g.Stop > 1<<40 {
					seen["gen:range-near-int64-limit"] = true
					if g.Stop > math.MaxInt64-g.Step {
						seen["gen:next-step-would-overflow"] = true
					}
				}
				if len(g.LHS) > 0 && g.LHS[0].Kind == zm.TLit && keywordLike(g.LHS[0].Lit) {
					seen["gen:owner-template-begins-with-keyword-like-word"] = true
					if u := strings.ToUpper(g.LHS[0].Lit); strings.HasPrefix(u, "TYPE") || strings.HasPrefix(u, "CLASS") {
						seen["gen:owner-template-begins-with-TYPE-or-CLASS"] = true
					}
				}
				if len(g.RHS) > 0 && g.RHS[0].Kind == zm.TLit && keywordLike(g.RHS[0].Lit) {
					seen["gen:rdata-template-begins-with-keyword-like-word"] = true
				}
				for _, tp := range []zm.Template{g.LHS, g.RHS} {
					for _, p := range tp {
						switch p.Kind {
						case zm.TIter:
							seen["gen:$"] = true
						case zm.TDollar:
							seen["gen:literal-dollar"] = true
						case zm.TIterMod:
							seen[fmt.Sprintf("gen:mod-fields=%d", p.NFields)] = true
							if p.NFields == 3 {
								seen["gen:base="+p.Base] = true
							}
							if p.Width > 0 {
								seen["gen:width>0"] = true
							}
							if p.Offset < 0 {
								seen["gen:offset<0"] = true
							} else if p.Offset > 0 {
								seen["gen:offset>0"] = true
							}
						}
					}
				}
			case zm.KInclude:
				seen["dir:$INCLUDE"] = true
				if _, ok := z.Files[zm.ResolveInclude(file, it.File)]; !ok {
					seen["inc:names-a-directory"] = true
				}
				if it.ViaGenerate {
					seen["inc:via-generate"] = true
				}
				switch {
				case strings.HasPrefix(it.File, "/"):
					seen["inc:path-absolute"] = true
				case strings.HasPrefix(it.File, "../"):
					seen["inc:path-parent"] = true
				case strings.Contains(it.File, "/"):
					seen["inc:path-subdir"] = true
				default:
					seen["inc:path-same-dir"] = true
				}
				if it.HasIncOrigin {
					seen["inc:origin-stated"] = true
				} else {
					seen["inc:origin-inherited"] = true
				}
			}
		}
	}
	walk(z.FileName, z.Items)
	for name, f := range z.Files {
		walk(name, f)
	}
	seen[fmt.Sprintf("inc:depth=%d", includeDepth(z, z.FileName, 0))] = true
	if strings.Contains(strings.TrimLeft(path.Clean(z.FileName), "/"), "/") {
		seen["inc:top-file-in-directory"] = true
	}
	if c := path.Clean(z.FileName); c != z.FileName || strings.HasPrefix(c, "/") {
		seen["inc:top-file-name-not-clean"] = true
		if strings.HasPrefix(z.FileName, "/") {
			seen["inc:top-file-name-absolute"] = true
		}
	}
	if d, h := generateHops(z, z.FileName, 0); d == zm.MaxIncludeDepth && h > 0 {
		seen["inc:depth=7-with-generate-hop"] = true
	}
	if nestedRelativeElsewhere(z) {
		seen["inc:nested-relative-include-in-other-directory"] = true
	}
	var out []string
	for k := range seen {
		out = append(out, k)
	}
	sort.Strings(out)
	return out
}

func includeDepth(z *zm.Zone, file string, d int) int {
	best := d
	if d > zm.MaxIncludeDepth+1 {
		return d
	}
	for _, it := range z.FileItems(file) {
		if it.Kind == zm.KInclude {
			if x := includeDepth(z, zm.ResolveInclude(file, it.File), d+1); x > best {
				best = x
			}
		}
	}
	return best
}

// viaGenerateOnDeepestChain: the number of $GENERATE-made hops on a chain of maximal depth.
func generateHops(z *zm.Zone, file string, d int) (depth, hops int) {
	depth = d
	if d > zm.MaxIncludeDepth+1 {
		return
	}
	for _, it := range z.FileItems(file) {
		if it.Kind == zm.KInclude {
			dd, hh := generateHops(z, zm.ResolveInclude(file, it.File), d+1)
			if it.ViaGenerate {
				hh++
			}
			if dd > depth || (dd == depth && hh > hops) {
				depth, hops = dd, hh
			}
		}
	}
	return
}

// nestedRelativeElsewhere: some included file whose resolved path differs from the text of its
// $INCLUDE line contains a relative $INCLUDE of its own.
func nestedRelativeElsewhere(z *zm.Zone) bool {
	for _, f := range z.FileNames() {
		for _, it := range z.FileItems(f) {
			if it.Kind != zm.KInclude {
				continue
			}
			r := zm.ResolveInclude(f, it.File)
			if r == it.File {
				continue
			}
			for _, in := range z.FileItems(r) {
				if in.Kind == zm.KInclude && !strings.HasPrefix(in.File, "/") {
					return true
				}
			}
		}
	}
	return false
}

func textKey(c *zoneCase) []byte {
	var sb strings.Builder
	for _, r := range c.Renderings {
		names := make([]string, 0, len(r.Files))
		for n := range r.Files {
			names = append(names, n)
		}
		sort.Strings(names)
		for _, n := range names {
			sb.WriteString(n)
			sb.WriteByte(0)
			sb.WriteString(r.Files[n])
			sb.WriteByte(0)
		}
	}
	return []byte(sb.String())
}

func showRendering(c *zoneCase, r rendering) string {
	var sb strings.Builder
	fmt.Fprintf(&sb, "origin=%q defttl=%v/%d file=%q\n", c.OriginText, c.Zone.HasDefTTL, c.Zone.DefTTL, c.Zone.FileName)
	names := make([]string, 0, len(r.Files))
	for n := range r.Files {
		names = append(names, n)
	}
	sort.Strings(names)
	for _, n := range names {
		fmt.Fprintf(&sb, "--- %s ---\n%q\n", n, r.Files[n])
	}
	return sb.String()
}

// checkZone is the oracle: every rendering parses to exactly the denotation of the model
// (Err() == nil), and any two renderings parse to the same list.
func checkZone(c zoneCase) error {
	den, err := zm.Denote(&c.Zone)
	if err != nil {
		pbt.Note(nil, false, "invalid-model")
		return nil
	}
	classes := append([]string{}, c.Classes...)
	classes = append(classes, fmt.Sprintf("records=%s", bucket(len(den.Recs))), fmt.Sprintf("files=%d", min(len(c.Zone.Files), 4)))
	if den.Err != "" {
		classes = append(classes, "expect-error:"+den.Err)
	}
	classes = append(classes, modelClasses(&c.Zone)...)
	for i := range den.Recs {
		if len(den.Recs[i].TTLAlts) > 0 {
			classes = append(classes, "ttl:omitted-right-after-include-or-generate")
			if den.Recs[i].MayFail {
				classes = append(classes, "ttl:omitted-after-generate-or-include-without-own-ttl-source")
			}
			break
		}
	}
	pbt.Note(textKey(&c), nontrivialZone(&c.Zone), classes...)
	if len(c.Renderings) > 0 && len(c.Zone.Files) > 0 {
		pbt.Sample("with-includes", showRendering(&c, c.Renderings[0]))
	} else if len(c.Renderings) > 0 {
		pbt.Sample("single-file", showRendering(&c, c.Renderings[0]))
	}
	return evalZone(&c, den)
}

// evalZone is the oracle proper (no statistics; also used by the probes).
func evalZone(cp *zoneCase, den *zm.Denotation) error {
	c := *cp
	var first []dns.RR
	for i, r := range c.Renderings {
		got, perr := parseZone(&c, r.Files, len(den.Recs)+8)
		if den.Err == "" {
			if err := zm.CompareOutcome(got, perr, den); err != nil {
				return pbt.Errf("rendering %d: %v\n%s", i, err, showRendering(&c, r))
			}
		} else {
			if perr == nil {
				return pbt.Errf("rendering %d: the zone must end in an error (%s) after %d records, parser returned %d records and no error\n%s", i, den.Err, len(den.Recs), len(got), showRendering(&c, r))
			}
			want := den.Recs
			if k := len(got); k < len(want) && want[k].MayFail {
				// a record that omits its TTL where the file has no TTL source of its own may be
				// refused (see CompareOutcome): the parse may end there, before the expected error
				want = want[:k]
			}
			if err := zm.Compare(got, want); err != nil {
				return pbt.Errf("rendering %d (before the expected %s error): %v\n%s", i, den.Err, err, showRendering(&c, r))
			}
		}
		if i == 0 {
			first = got
		} else if err := zm.SameRecords(first, got); err != nil {
			return pbt.Errf("renderings 0 and %d of one model disagree: %v\n%s\n%s", i, err, showRendering(&c, c.Renderings[0]), showRendering(&c, r))
		}
	}
	return nil
}

func bucket(n int) string {
	switch {
	case n == 0:
		return "0"
	case n <= 3:
		return "1-3"
	case n <= 10:
		return "4-10"
	case n <= 100:
		return "11-100"
	case n <= 10000:
		return "101-10000"
	}
	return ">10000"
}

// ---------------------------------------------------------------------------------------------
// generators

func genOpts() zm.GenOpts {
	o := zm.GenOpts{MaxItems: 10, HostileLabels: true, OnExcluded: pbt.Excluded, UncertainTTL: true, MissingTTLShape: true, MissingTTLError: true}
	if pbt.Thorough() {
		o.MaxItems = 16
	}
	if pbt.Known(kGenTTL) {
		o.ForceGenerateTTL = true
	}
	if pbt.Known(kDirArg) {
		o.KeywordLike = keywordLike
	}
	if pbt.Known(kIPSECKEY) {
		o.LastOnlySamples = map[string]bool{"IPSECKEY": true}
	}
	return o
}

func renderOpts() zm.RenderOpts {
	return zm.RenderOpts{ForceGenerateTTL: pbt.Known(kGenTTL), BlankBeforeComment: pbt.Known(kComment), OnExcluded: pbt.Excluded,
		NoCommentBeforeKeywordRdata: pbt.Known(kRrtype), KeywordLike: keywordLike, AvoidEscapedOnly: pbt.Known(kEscOnly),
		BlankWithNewline: pbt.Known(kMerge), NoComment511: pbt.Known(kCom511), KeepMissingTTLShape: true}
}

// keywordLike: the token spells a type or class keyword for the library's lexer. Used only to
// delimit the excluded class of a known finding (never in an oracle), hence the library tables.
func keywordLike(tok string) bool {
	u := strings.ToUpper(tok)
	if _, ok := dns.StringToType[u]; ok {
		return true
	}
	if _, ok := dns.StringToClass[u]; ok {
		return true
	}
	return strings.HasPrefix(u, "TYPE") || strings.HasPrefix(u, "CLASS")
}

// finish draws the parser options and the renderings for a model.
func finish(t *rapid.T, z *zm.Zone, nrender int) zoneCase {
	c := zoneCase{Zone: *z}
	c.OriginText = zm.OriginText(t, z)
	c.Reader = rapid.IntRange(0, 2).Draw(t, "reader")
	c.AllowAnyway = rapid.Bool().Draw(t, "allow")
	c.FSAnyway = rapid.Bool().Draw(t, "fs")
	c.UseOS = rapid.IntRange(0, 3).Draw(t, "os") == 3
	den, err := zm.Denote(z)
	if err != nil {
		// generator bug: keep the case, checkZone counts it as invalid-model
		return c
	}
	dev := map[string]bool{}
	for i := 0; i < nrender; i++ {
		r, err := zm.Render(t, z, den, renderOpts())
		if err != nil {
			t.Fatalf("renderer: %v", err)
		}
		c.Renderings = append(c.Renderings, rendering{Files: r.Files})
		for d := range r.Devices {
			dev[d] = true
		}
	}
	for d := range dev {
		c.Classes = append(c.Classes, d)
	}
	sort.Strings(c.Classes)
	return c
}

// underFuzz: the case is drawn for the coverage-guided layer (pbt.FuzzGen; the driver sets
// VERIF_FUZZ). Its workers give one input 10 s, 16 of them run side by side: the ranges of tens of
// thousands of steps (a size class, seconds per case on a loaded machine) are left to the rapid runs.
func underFuzz() bool { return os.Getenv("VERIF_FUZZ") != "" }

// templateWords: words a lexer could take for something else than part of a name - type and class
// mnemonics, TYPEnnn / CLASSnnn and longer words that begin like them, TTL spellings, directive
// names - in either case. The zone generator writes such labels in record lines and directive
// arguments; the literal part of its $GENERATE templates comes from eight fixed words, so they are
// put there afterwards (the template of a $GENERATE is "owner [ttl] [class] type rdata" like any
// record line, and its owner may be called anything).
var templateWords = []string{"type", "class", "TYPE", "Class", "tYpE-", "classroom-", "typewriter", "TYPESET", "CLASSES", "type1", "TYPE65534", "class1", "CLASS255",
	"in", "IN", "ch", "hs", "any", "none", "a", "A", "mx", "ns", "Txt", "soa", "cname", "nsec3", "ANY", "1h", "3600", "1w2d", "0", "ttl", "TTL", "origin", "include", "generate"}

// keywordTemplates rewrites the leading literal of $GENERATE templates (owner side in three
// directives of ten, name RDATA in one of ten) into one of templateWords. A rewrite that makes
// the model invalid (a completed name over 255 octets) is taken back.
func keywordTemplates(t *rapid.T, z *zm.Zone) {
	type undo struct {
		p   *zm.TPart
		old string
	}
	var undos []undo
	set := func(p *zm.TPart) {
		undos = append(undos, undo{p, p.Lit})
		p.Lit = templateWords[rapid.IntRange(0, len(templateWords)-1).Draw(t, "kww")]
	}
	for _, f := range z.FileNames() {
		items := z.FileItems(f)
		for i := range items {
			g := items[i].Gen
			if items[i].Kind != zm.KGenerate || g == nil {
				continue
			}
			k := rapid.IntRange(0, 9).Draw(t, "kwt")
			if k < 3 && len(g.LHS) > 0 && g.LHS[0].Kind == zm.TLit {
				set(&g.LHS[0])
			}
			if (k == 2 || k == 3) && len(g.RHS) > 0 && g.RHS[0].Kind == zm.TLit {
				switch g.Type {
				case zm.TCNAME, zm.TNS, zm.TPTR, zm.TDNAME:
					set(&g.RHS[0])
				}
			}
		}
	}
	if len(undos) == 0 {
		return
	}
	if _, err := zm.Denote(z); err != nil {
		for _, u := range undos {
			u.p.Lit = u.old
		}
	}
}

func genZoneCase(t *rapid.T) zoneCase {
	o := genOpts()
	o.BigGenerate = pbt.Thorough() && rapid.IntRange(0, 99).Draw(t, "big") == 99 && !underFuzz()
	z := zm.GenZone(t, o)
	keywordTemplates(t, z)
	return finish(t, z, rapid.IntRange(2, 3).Draw(t, "nrender"))
}

// genGenerateCase: a short zone around one or two $GENERATE directives.
func genGenerateCase(t *rapid.T) zoneCase {
	o := genOpts()
	o.MaxItems = 5
	o.NoIncludes = true
	o.NoSamples = true
	o.OnlyGenerate = true
	o.BigGenerate = rapid.IntRange(0, 40).Draw(t, "big") >= 39 && !underFuzz()
	z := zm.GenZone(t, o)
	keywordTemplates(t, z)
	return finish(t, z, 2)
}

// genIncludeCase: include trees, up to the depth limit.
func genIncludeCase(t *rapid.T) zoneCase {
	o := genOpts()
	o.MaxItems = 5
	o.NoSamples = true
	o.IncludeHeavy = true
	o.DeepChain = rapid.IntRange(0, 9).Draw(t, "deep") >= 8
	z := zm.GenZone(t, o)
	keywordTemplates(t, z)
	if rapid.IntRange(0, 9).Draw(t, "incdir") == 0 {
		directoryInclude(t, z)
	}
	return finish(t, z, 2)
}

// directoryInclude ends the top-level file with a $INCLUDE that names a directory of the include
// tree instead of a file: its own directory ("." / "./") or the directory part of one of its
// $INCLUDE lines. A directory can be opened (in an fs.FS and on disk) but it cannot be read, so
// there are no records to splice in: the denotation is the records before the line and an error
// (the model's "include-open": the name is not a file of the tree). Only zones that have include
// files (an include FS or a scratch directory is then in place; nothing outside it is touched).
func directoryInclude(t *rapid.T, z *zm.Zone) {
	if len(z.Files) == 0 {
		return
	}
	if den, err := zm.Denote(z); err != nil || den.Err != "" {
		return // the file already ends in an error
	}
	dirs := []string{".", "./"}
	for _, it := range z.Items {
		if it.Kind == zm.KInclude && !it.ViaGenerate {
			if d := path.Dir(it.File); d != "." && d != "/" {
				dirs = append(dirs, d, d+"/")
			}
		}
	}
	d := dirs[rapid.IntRange(0, len(dirs)-1).Draw(t, "dirname")]
	if _, isFile := z.Files[zm.ResolveInclude(z.FileName, d)]; isFile {
		return
	}
	z.Items = append(z.Items, zm.Item{Kind: zm.KInclude, File: d})
}

// ---------------------------------------------------------------------------------------------
// $GENERATE at the limit of 65 536 steps: step widths > 1 with the stop beyond the last generated
// value, on both sides of the limit (the full matrix of remainders is in C07's gate-table, which
// counts records; here the records are compared)

type limitCase struct {
	Start, Step, Rem, N int64
}

func eachLimit(emit func(limitCase)) {
	emit(limitCase{Start: 0, Step: 2, Rem: 1, N: 65536})
	emit(limitCase{Start: 7, Step: 7, Rem: 3, N: 65536})
	emit(limitCase{Start: 1, Step: 3, Rem: 2, N: 65535})
	emit(limitCase{Start: 0, Step: 1, Rem: 0, N: 65537})
	emit(limitCase{Start: 0, Step: 2, Rem: 0, N: 65537})
	emit(limitCase{Start: 5, Step: 2, Rem: 1, N: 65537})
}

func checkLimit(c limitCase) error {
	if c.Step < 1 || c.Rem < 0 || c.Rem >= c.Step || c.N < 1 || c.N > 70000 || c.Start < 0 || c.Start > 1000 {
		pbt.Note(nil, false, "invalid-model")
		return nil
	}
	z := &zm.Zone{FileName: "limit.db", HasOrigin: true, Origin: [][]byte{[]byte("example")}, HasDefTTL: true, DefTTL: 60}
	z.Items = []zm.Item{
		{Kind: zm.KGenerate, Gen: &zm.Generate{Start: c.Start, Stop: c.Start + (c.N-1)*c.Step + c.Rem, Step: c.Step, Type: zm.TCNAME,
			LHS: zm.Template{{Kind: zm.TLit, Lit: "g"}, {Kind: zm.TIter}},
			RHS: zm.Template{{Kind: zm.TLit, Lit: "t"}, {Kind: zm.TIterMod, NFields: 3, Width: 6, Base: "x"}}}},
		{Kind: zm.KRec, Owner: zm.MName{Kind: zm.Rel, Labels: [][]byte{[]byte("after")}}, HasTTL: true, TTL: 5, RD: zm.RData{Type: zm.TA, IP: []byte{192, 0, 2, 9}}},
	}
	den, err := zm.Denote(z)
	if err != nil {
		return pbt.Errf("harness: %v", err)
	}
	pbt.Note([]byte(fmt.Sprint(c)), true, fmt.Sprintf("limit:steps=%d", c.N), fmt.Sprintf("limit:step=%d/rem=%d", c.Step, c.Rem))
	zc := zoneCase{Zone: *z, OriginText: "example.", Renderings: []rendering{{Files: map[string]string{"limit.db": plainText(z, den)}}}}
	return evalZone(&zc, den)
}

// ---------------------------------------------------------------------------------------------
// NewRR / ReadRR: the first record of a text under the documented defaults (origin ".", default
// TTL 3600, class IN)

type newRRCase struct {
	Zone    zm.Zone
	Text    string
	UseRead bool // ReadRR instead of NewRR
}

func genNewRR(t *rapid.T) newRRCase {
	o := genOpts()
	o.MaxItems = 3
	o.NoIncludes = true
	o.FixedOptions = true
	z := zm.GenZone(t, o)
	den, err := zm.Denote(z)
	if err != nil {
		t.Fatalf("generator: %v", err)
	}
	r, err := zm.Render(t, z, den, renderOpts())
	if err != nil {
		t.Fatalf("renderer: %v", err)
	}
	return newRRCase{Zone: *z, Text: r.Files[z.FileName], UseRead: rapid.Bool().Draw(t, "read")}
}

func checkNewRR(c newRRCase) error {
	den, err := zm.Denote(&c.Zone)
	if err != nil || den.Err != "" || len(c.Zone.Files) > 0 || !c.Zone.HasOrigin || len(c.Zone.Origin) != 0 || !c.Zone.HasDefTTL || c.Zone.DefTTL != 3600 {
		pbt.Note(nil, false, "invalid-model")
		return nil
	}
	pbt.Note([]byte(c.Text), nontrivialZone(&c.Zone), fmt.Sprintf("newrr:read=%v", c.UseRead), fmt.Sprintf("newrr:records=%s", bucket(len(den.Recs))))
	var rr dns.RR
	if c.UseRead {
		rr, err = dns.ReadRR(strings.NewReader(c.Text), c.Zone.FileName)
	} else {
		rr, err = dns.NewRR(c.Text)
	}
	if err != nil {
		return pbt.Errf("NewRR/ReadRR reports %v\n%q", err, c.Text)
	}
	if len(den.Recs) == 0 {
		if rr != nil {
			return pbt.Errf("the text denotes no record, NewRR/ReadRR returned %v\n%q", rr, c.Text)
		}
		return nil
	}
	if rr == nil {
		return pbt.Errf("NewRR/ReadRR returned no record, the text denotes %d\n%q", len(den.Recs), c.Text)
	}
	if err := zm.CompareRec(rr, &den.Recs[0]); err != nil {
		return pbt.Errf("first record: %v\n%q", err, c.Text)
	}
	return nil
}

// ---------------------------------------------------------------------------------------------
// every presentable type once, followed by something

type followCase struct {
	Sample string
	After  int  // 0 another record, 1 $TTL then a record, 2 comment line then a record, 3 nothing (last line)
	NoNL   bool // After == 3: no final newline
	Plain  bool
	Seed   []string `json:",omitempty"` // rendered text when not plain
}

func followZone(c followCase) *zm.Zone {
	s, _ := zm.SampleByName(c.Sample)
	z := &zm.Zone{FileName: "follow.db", HasOrigin: true, Origin: [][]byte{[]byte("example"), []byte("org")}}
	owner := zm.MName{Kind: zm.Abs, Labels: [][]byte{[]byte("first"), []byte("example"), []byte("org")}}
	z.Items = append(z.Items, zm.Item{Kind: zm.KRec, Owner: owner, HasTTL: true, TTL: 300, HasClass: true, Class: 1, RD: zm.RData{Type: s.Type, Sample: s.Name}})
	next := zm.Item{Kind: zm.KRec, Owner: zm.MName{Kind: zm.Rel, Labels: [][]byte{[]byte("next")}}, HasTTL: true, TTL: 600, RD: zm.RData{Type: zm.TA, IP: []byte{192, 0, 2, 1}}}
	switch c.After {
	case 0, 2:
		z.Items = append(z.Items, next)
	case 1:
		z.Items = append(z.Items, zm.Item{Kind: zm.KTTL, DirTTL: 77}, next)
	}
	return z
}

func checkFollow(c followCase) error {
	if _, ok := zm.SampleByName(c.Sample); !ok {
		pbt.Note(nil, false, "invalid-model")
		return nil
	}
	pbt.Note([]byte(fmt.Sprint(c)), true, "follow:"+c.Sample, fmt.Sprintf("after=%d", c.After))
	return evalFollow(c)
}

func evalFollow(c followCase) error {
	z := followZone(c)
	den, err := zm.Denote(z)
	if err != nil {
		return pbt.Errf("harness: %v", err)
	}
	var text string
	if c.Plain || len(c.Seed) == 0 {
		text = plainText(z, den)
		if c.After == 2 {
			text = strings.Replace(text, "\nnext", "\n; a comment line\n\nnext", 1)
		}
		if c.After == 3 && c.NoNL {
			text = strings.TrimSuffix(text, "\n")
		}
	} else {
		text = c.Seed[0]
	}
	zc := zoneCase{Zone: *z, OriginText: "example.org."}
	got, perr := parseZone(&zc, map[string]string{z.FileName: text}, len(den.Recs)+8)
	if perr != nil {
		return pbt.Errf("%s record followed by another line: parser reports %v after %d of %d records\n%q", c.Sample, perr, len(got), len(den.Recs), text)
	}
	if err := zm.Compare(got, den.Recs); err != nil {
		return pbt.Errf("%s record followed by another line: %v\n%q", c.Sample, err, text)
	}
	return nil
}

// plainText renders without any device (deterministic; no rapid needed).
func plainText(z *zm.Zone, den *zm.Denotation) string {
	r, err := zm.RenderPlain(z, den)
	if err != nil {
		panic(err)
	}
	return r.Files[z.FileName]
}

func eachFollow(emit func(followCase)) {
	for _, s := range zm.Samples {
		for after := 0; after <= 3; after++ {
			if s.Name == "IPSECKEY" && after != 3 && pbt.Known(kIPSECKEY) {
				pbt.Excluded("sample-followed:IPSECKEY")
				continue
			}
			emit(followCase{Sample: s.Name, After: after, Plain: true})
			if after == 3 {
				emit(followCase{Sample: s.Name, After: after, NoNL: true, Plain: true})
			}
		}
	}
}

func genFollow(t *rapid.T) followCase {
	c := followCase{Sample: zm.Samples[rapid.IntRange(0, len(zm.Samples)-1).Draw(t, "s")].Name, After: rapid.IntRange(0, 3).Draw(t, "after")}
	if c.Sample == "IPSECKEY" && c.After != 3 && pbt.Known(kIPSECKEY) {
		pbt.Excluded("sample-followed:IPSECKEY")
		c.After = 3
	}
	z := followZone(c)
	den, err := zm.Denote(z)
	if err != nil {
		t.Fatalf("harness: %v", err)
	}
	r, err := zm.Render(t, z, den, renderOpts())
	if err != nil {
		t.Fatalf("renderer: %v", err)
	}
	c.Seed = []string{r.Files[z.FileName]}
	return c
}

// ---------------------------------------------------------------------------------------------

func init() {
	pbt.Register(pbt.Sub[zoneCase]{Name: "zones", Weight: 30, Gen: genZoneCase, Check: noShrink(checkZone)})
	pbt.Register(pbt.Sub[zoneCase]{Name: "generate", Weight: 3, Gen: genGenerateCase, Check: noShrink(checkZone)})
	pbt.Register(pbt.Sub[zoneCase]{Name: "includes", Weight: 8, Gen: genIncludeCase, Check: noShrink(checkZone)})
	pbt.Register(pbt.Sub[newRRCase]{Name: "newrr", Weight: 5, Gen: genNewRR, Check: noShrink(checkNewRR)})
	pbt.Register(pbt.Sub[followCase]{Name: "type-followed", Weight: 2, Gen: genFollow, Check: noShrink(checkFollow)})
	pbt.RegisterEnum(pbt.Enum[limitCase]{Name: "generate-limit", Exhaustive: true, Each: eachLimit, Check: noShrink(checkLimit)})
	pbt.RegisterEnum(pbt.Enum[followCase]{Name: "every-type-followed", Exhaustive: true, Each: eachFollow, Check: noShrink(checkFollow)})

	// finding #13: an IPSECKEY record followed by any line fails the whole parse
	pbt.Probe(kIPSECKEY, func() error {
		return oneLine(evalFollow(followCase{Sample: "IPSECKEY", After: 0, Plain: true}))
	})
	// finding #14: records of a $GENERATE without TTL get 3600 instead of the $TTL in force
	pbt.Probe(kGenTTL, func() error {
		z := &zm.Zone{FileName: "gen.db", HasOrigin: true, Origin: [][]byte{[]byte("example")}}
		z.Items = []zm.Item{
			{Kind: zm.KTTL, DirTTL: 300},
			{Kind: zm.KGenerate, Gen: &zm.Generate{Start: 1, Stop: 2, Step: 1, Type: zm.TA,
				LHS: zm.Template{{Kind: zm.TLit, Lit: "host"}, {Kind: zm.TIter}},
				RHS: zm.Template{{Kind: zm.TLit, Lit: "10.0.0."}, {Kind: zm.TIter}}}},
		}
		den, err := zm.Denote(z)
		if err != nil {
			return nil
		}
		c := zoneCase{Zone: *z, OriginText: "example.", Renderings: []rendering{{Files: map[string]string{"gen.db": plainText(z, den)}}}}
		return oneLine(evalZone(&c, den))
	})
	// a comment written directly behind an owner, class or type token (no blank in between, only
	// possible inside parentheses) is not recognised: the token is lexed as a plain string
	pbt.Probe(kComment, func() error {
		z := &zm.Zone{FileName: "c.db"}
		z.Items = []zm.Item{{Kind: zm.KRec, Owner: zm.MName{Kind: zm.Abs, Labels: [][]byte{[]byte("www"), []byte("example")}}, HasTTL: true, TTL: 600,
			RD: zm.RData{Type: zm.TA, IP: []byte{192, 0, 2, 1}}}}
		den, err := zm.Denote(z)
		if err != nil {
			return nil
		}
		c := zoneCase{Zone: *z, Renderings: []rendering{
			{Files: map[string]string{"c.db": "www.example. 600 ( A; the address\n 192.0.2.1 )\n"}},
			{Files: map[string]string{"c.db": "www.example. ( IN; class\n 600 A 192.0.2.1 )\n"}},
			{Files: map[string]string{"c.db": "www.example.(; owner\n 600 A 192.0.2.1 )\n"}},
		}}
		return oneLine(evalZone(&c, den))
	})
}

func init() {
	// inside parentheses, the newline that ends a comment makes the lexer classify the following
	// RDATA tokens as type/class keywords again
	pbt.Probe(kRrtype, func() error {
		z := &zm.Zone{FileName: "n.db"}
		nm := func(s ...string) zm.MName {
			m := zm.MName{Kind: zm.Abs}
			for _, l := range s {
				m.Labels = append(m.Labels, []byte(l))
			}
			return m
		}
		z.Items = []zm.Item{{Kind: zm.KRec, Owner: nm("n", "example"), HasTTL: true, TTL: 300,
			RD: zm.RData{Type: zm.TNSEC, Names: []zm.MName{nm("next", "example")}, Types: []uint16{1, 2}}}}
		den, err := zm.Denote(z)
		if err != nil {
			return nil
		}
		c := zoneCase{Zone: *z, Renderings: []rendering{
			{Files: map[string]string{"n.db": "n.example. 300 NSEC next.example. A ( ; types\n NS )\n"}},
		}}
		return oneLine(evalZone(&c, den))
	})
}

func init() {
	// a relative $ORIGIN (or $INCLUDE origin) that spells a type keyword is refused
	pbt.Probe(kDirArg, func() error {
		z := &zm.Zone{FileName: "o.db", HasOrigin: true, Origin: [][]byte{[]byte("example")}}
		z.Items = []zm.Item{
			{Kind: zm.KOrigin, Origin: zm.MName{Kind: zm.Rel, Labels: [][]byte{[]byte("mx")}}},
			{Kind: zm.KRec, Owner: zm.MName{Kind: zm.Rel, Labels: [][]byte{[]byte("www")}}, HasTTL: true, TTL: 300, RD: zm.RData{Type: zm.TA, IP: []byte{192, 0, 2, 1}}},
		}
		den, err := zm.Denote(z)
		if err != nil {
			return nil
		}
		c := zoneCase{Zone: *z, OriginText: "example.", Renderings: []rendering{{Files: map[string]string{"o.db": plainText(z, den)}}}}
		return oneLine(evalZone(&c, den))
	})
}

func init() {
	// a token made only of backslash-escaped separators (\; \( \\ ...) is not followed by a blank
	// token when the previous line ended in a blank
	pbt.Probe(kEscOnly, func() error {
		z := &zm.Zone{FileName: "e.db", HasOrigin: true, Origin: [][]byte{[]byte("example")}}
		z.Items = []zm.Item{
			{Kind: zm.KRec, Owner: zm.MName{Kind: zm.Rel, Labels: [][]byte{[]byte("a")}}, HasTTL: true, TTL: 300, RD: zm.RData{Type: zm.TA, IP: []byte{192, 0, 2, 1}}},
			{Kind: zm.KRec, Owner: zm.MName{Kind: zm.Rel, Labels: [][]byte{[]byte(";")}}, HasTTL: true, TTL: 300, RD: zm.RData{Type: zm.TA, IP: []byte{192, 0, 2, 2}}},
		}
		den, err := zm.Denote(z)
		if err != nil {
			return nil
		}
		c := zoneCase{Zone: *z, OriginText: "example.", Renderings: []rendering{{Files: map[string]string{"e.db": "a 300 A 192.0.2.1 \n\\; 300 A 192.0.2.2\n"}}}}
		return oneLine(evalZone(&c, den))
	})
}

func init() {
	mx := func() (*zm.Zone, *zm.Denotation) {
		z := &zm.Zone{FileName: "p.db", HasOrigin: true, Origin: [][]byte{[]byte("example")}, HasDefTTL: true, DefTTL: 5}
		z.Items = []zm.Item{{Kind: zm.KRec, Owner: zm.MName{Kind: zm.Rel, Labels: [][]byte{[]byte("a")}},
			RD: zm.RData{Type: zm.TMX, Nums: []uint32{10}, Names: []zm.MName{{Kind: zm.Rel, Labels: [][]byte{[]byte("mail")}}}}}}
		den, _ := zm.Denote(z)
		return z, den
	}
	// inside parentheses a line break that stands directly between two tokens joins them
	pbt.Probe(kMerge, func() error {
		z, den := mx()
		c := zoneCase{Zone: *z, OriginText: "example.", Renderings: []rendering{
			{Files: map[string]string{"p.db": "a MX ( 10 mail )\n"}},
			{Files: map[string]string{"p.db": "a MX (\n10\nmail\n)\n"}},
		}}
		return oneLine(evalZone(&c, den))
	})
	// a second comment inside parentheses fails when the first one has exactly 511 characters
	pbt.Probe(kCom511, func() error {
		z, den := mx()
		c := zoneCase{Zone: *z, OriginText: "example.", Renderings: []rendering{
			{Files: map[string]string{"p.db": "a MX ( 10 ;" + strings.Repeat("c", 510) + "\n mail ; second\n )\n"}},
		}}
		return oneLine(evalZone(&c, den))
	})
}

func oneLine(err error) error {
	if err == nil {
		return nil
	}
	return fmt.Errorf("%s", strings.ReplaceAll(strings.TrimSpace(err.Error()), "\n", " | "))
}
