package c06

import (
	"fmt"
	"strings"
	"testing"

	"github.com/miekg/dns"
)

func parseAll(txt, origin string) string {
	zp := dns.NewZoneParser(strings.NewReader(txt), origin, "x.db")
	var sb strings.Builder
	n := 0
	for rr, ok := zp.Next(); ok; rr, ok = zp.Next() {
		fmt.Fprintf(&sb, "  [%d] %q\n", n, rr.String())
		n++
		if n > 20 {
			break
		}
	}
	fmt.Fprintf(&sb, "  err=%v\n", zp.Err())
	return sb.String()
}

func TestScratch(t *testing.T) {
	for _, txt := range []string{
		"foo. 300 ANY A 1.2.3.4\n",
		"foo. ANY 300 A 1.2.3.4\n",
		"foo. ANY A 1.2.3.4\n",
		"foo. 300 CLASS255 A 1.2.3.4\n",
		"foo. CLASS255 300 A 1.2.3.4\n",
		"foo. 300 NONE A 1.2.3.4\n",
		"foo. 300 IN ANY\n",
		"$TTL 5\n$GENERATE 1-2 a$ TXT foo\\\nb TXT bar\n",
		"$TTL 5\na1 TXT foo\\\na2 TXT foo\\\nb TXT bar\n",
		"$TTL 5\n$GENERATE 1-2 a$ TXT \"foo\\\"\nb TXT bar\n",
		"$TTL 5\n$GENERATE 1-2 a$ CNAME foo\\\nb TXT bar\n",
		"$TTL 5\na1 CNAME foo\\\na2 CNAME foo\\\nb TXT bar\n",
		"$TTL 5\nx TKEY hmac 3 abc 0 x\ny A 1.2.3.4\n",
		"$TTL 5\nx TKEY hmac. 3 abc 0 x\ny A 1.2.3.4\n",
		"$TTL 5\nx TKEY @ 3 abc 0 x\ny A 1.2.3.4\n",
		"$TTL 5\nx TKEY @ 3 abc 0 x",
	} {
		t.Logf("%q\n%s", txt, parseAll(txt, "example.org."))
	}
}
