package c06

import (
	"fmt"
	"strings"

	"github.com/miekg/dns"

	"verif/harness/pbt"
	wm "verif/harness/wiremodel"
	zm "verif/harness/zonemodel"
)

// "Relative names are completed with the current origin and @ is the origin" for every type that
// carries a domain name in its RDATA: the generated zones spell RDATA names relative for the
// modelled types only (NS CNAME MX SOA SRV PTR DNAME RP NSEC); the sample table of every other
// presentable type is written with absolute names. This table takes every sample that has a name
// among its tokens - plus the three name-bearing shapes the table lacks (IPSECKEY and AMTRELAY
// with a host name as gateway, TKEY in the form the library reads) - and writes each name
// relative to the origin in force ("@" where it equals the origin); the expectation is the
// sample's own value with absolute names.

const kTKEYName = "tkey-algorithm-not-completed"

type relNameCase struct {
	Sample  string
	Variant int  // 0 origin example.net. given to the parser, 1 origin net. given to the parser, 2 no initial origin, "$ORIGIN example.net." in the file, 3 initial origin "." and "$ORIGIN example.net" (relative) ... see relOrigins
	Lower   bool // type mnemonic in lower case
}

// relExtra: name-bearing shapes that zonemodel.Samples does not have.
type relExtra struct {
	Name   string
	Type   uint16
	Tokens []string
	Exp    func() dns.RR
	// Check replaces the field-by-field comparison (for a type whose remaining text form nothing defines)
	Check func(dns.RR) error
}

const relKey = "AQNRU3mG7TVTO2BkR47usntb102uFJtugbo6BSGvgqt4AQ=="

var relExtras = []relExtra{
	{Name: "IPSECKEY-host", Type: dns.TypeIPSECKEY, Tokens: []string{"10", "3", "2", "gw.example.net.", relKey}, Exp: func() dns.RR {
		return &dns.IPSECKEY{Precedence: 10, GatewayType: 3, Algorithm: 2, GatewayHost: "gw.example.net.", PublicKey: relKey}
	}},
	{Name: "AMTRELAY-host", Type: dns.TypeAMTRELAY, Tokens: []string{"10", "0", "3", "relay.example.net."}, Exp: func() dns.RR {
		return &dns.AMTRELAY{Precedence: 10, GatewayType: 3, GatewayHost: "relay.example.net."}
	}},
	// TKEY is a meta-type without a text form of its own; the library reads "algorithm keysize key
	// otherlen otherdata". Only the header and the algorithm name are looked at.
	{Name: "TKEY", Type: dns.TypeTKEY, Tokens: []string{"gss-tsig.example.net.", "2", "abcd", "2", "ef01"}, Check: func(rr dns.RR) error {
		k, ok := rr.(*dns.TKEY)
		if !ok {
			return fmt.Errorf("record has Go type %T, want *dns.TKEY", rr)
		}
		if k.Algorithm != "gss-tsig.example.net." {
			return fmt.Errorf("TKEY algorithm name %q, want %q", k.Algorithm, "gss-tsig.example.net.")
		}
		return nil
	}},
	{Name: "TKEY-origin", Type: dns.TypeTKEY, Tokens: []string{"example.net.", "2", "abcd", "2", "ef01"}, Check: func(rr dns.RR) error {
		k, ok := rr.(*dns.TKEY)
		if !ok {
			return fmt.Errorf("record has Go type %T, want *dns.TKEY", rr)
		}
		if k.Algorithm != "example.net." {
			return fmt.Errorf("TKEY algorithm name %q, want %q", k.Algorithm, "example.net.")
		}
		return nil
	}},
}

func relLookup(name string) (relExtra, bool) {
	for _, e := range relExtras {
		if e.Name == name {
			return e, true
		}
	}
	if s, ok := zm.SampleByName(name); ok && s.Exp != nil {
		return relExtra{Name: s.Name, Type: s.Type, Tokens: s.Tokens, Exp: s.Exp}, true
	}
	return relExtra{}, false
}

// the names of the tables all live under example.net.
func relIsName(tok string) bool {
	return tok == "example.net." || strings.HasSuffix(tok, ".example.net.")
}

func relHasName(tokens []string) bool {
	for _, t := range tokens {
		if relIsName(t) {
			return true
		}
	}
	return false
}

// relSpell writes an absolute name of the tables relative to the origin ("example.net." or "net.").
func relSpell(tok, origin string) string {
	if tok == origin {
		return "@"
	}
	return strings.TrimSuffix(tok, "."+origin)
}

const relVariants = 3

// relText: the zone text and the origin handed to NewZoneParser.
func relText(c relNameCase, e relExtra) (text, initial, origin string) {
	switch c.Variant {
	case 0:
		initial, origin = "example.net.", "example.net."
	case 1:
		initial, origin = "net.", "net."
	default:
		initial, origin = "", "example.net."
		text = "$ORIGIN example.net.\n"
	}
	toks := make([]string, len(e.Tokens))
	for i, t := range e.Tokens {
		toks[i] = t
		if relIsName(t) {
			toks[i] = relSpell(t, origin)
		}
	}
	mn := strings.TrimSuffix(strings.TrimSuffix(e.Name, "-host"), "-origin")
	if c.Lower {
		mn = strings.ToLower(mn)
	}
	text += "first 300 IN " + mn + " " + strings.Join(toks, " ") + "\nnext 600 A 192.0.2.1\n"
	return
}

func evalRelName(c relNameCase) error {
	e, ok := relLookup(c.Sample)
	if !ok || !relHasName(e.Tokens) || c.Variant < 0 || c.Variant >= relVariants {
		return errGeInvalid
	}
	text, initial, origin := relText(c, e)
	on, _, err := wm.UnescName(origin)
	if err != nil {
		return pbt.Errf("harness: %v", err)
	}
	owner := func(l string) wm.Name { return append(wm.Name{[]byte(l)}, on.Clone()...) }
	zc := zoneCase{Zone: zm.Zone{FileName: "rel.db"}, OriginText: initial}
	got, perr := parseZone(&zc, map[string]string{"rel.db": text}, 10)
	if perr != nil {
		return pbt.Errf("%s with relative names in its RDATA: parser reports %v after %d of 2 records\n%q", e.Name, perr, len(got), text)
	}
	if len(got) != 2 {
		return pbt.Errf("%s with relative names in its RDATA: %d records parsed, 2 expected\n%q", e.Name, len(got), text)
	}
	first := zm.ExpRec{Owner: owner("first"), TTL: 300, Class: 1, Type: e.Type, RR: &zm.HeaderOnly{}}
	if e.Exp != nil {
		rr := e.Exp()
		*rr.Header() = dns.RR_Header{Name: wm.EscName(first.Owner), Rrtype: e.Type, Class: 1, Ttl: 300}
		first.RR = rr
	}
	if err := zm.CompareRec(got[0], &first); err != nil {
		return pbt.Errf("%s with relative names in its RDATA (origin %s): %v\n%q", e.Name, origin, err, text)
	}
	if e.Check != nil {
		if err := e.Check(got[0]); err != nil {
			return pbt.Errf("%s with relative names in its RDATA (origin %s): %v\n%q", e.Name, origin, err, text)
		}
	}
	a := &dns.A{Hdr: dns.RR_Header{Name: wm.EscName(owner("next")), Rrtype: 1, Class: 1, Ttl: 600}, A: []byte{0, 0, 0, 0, 0, 0, 0, 0, 0, 0, 0xff, 0xff, 192, 0, 2, 1}}
	if err := zm.CompareRec(got[1], &zm.ExpRec{Owner: owner("next"), TTL: 600, Class: 1, Type: 1, RR: a}); err != nil {
		return pbt.Errf("record after %s: %v\n%q", e.Name, err, text)
	}
	return nil
}

func checkRelName(c relNameCase) error {
	err := evalRelName(c)
	if err == errGeInvalid {
		pbt.Note(nil, false, "invalid-model")
		return nil
	}
	pbt.Note([]byte(fmt.Sprint(c)), true, "relname:"+c.Sample, fmt.Sprintf("relname:variant=%d", c.Variant), fmt.Sprintf("relname:lower=%v", c.Lower))
	return err
}

func eachRelName(emit func(relNameCase)) {
	var names []string
	for _, s := range zm.Samples {
		if s.Exp != nil && relHasName(s.Tokens) {
			names = append(names, s.Name)
		}
	}
	for _, e := range relExtras {
		names = append(names, e.Name)
	}
	for _, n := range names {
		if strings.HasPrefix(n, "TKEY") && pbt.Known(kTKEYName) {
			pbt.Excluded(kTKEYName)
			continue
		}
		for v := 0; v < relVariants; v++ {
			emit(relNameCase{Sample: n, Variant: v})
			emit(relNameCase{Sample: n, Variant: v, Lower: true})
		}
	}
}

func init() {
	pbt.RegisterEnum(pbt.Enum[relNameCase]{Name: "rdata-names-relative", Exhaustive: true, Each: eachRelName, Check: noShrink(checkRelName)})

	// side remark of a round-9 breaker: TKEY.parse stores the algorithm name as written
	pbt.Probe(kTKEYName, func() error {
		for _, n := range []string{"TKEY", "TKEY-origin"} {
			if err := evalRelName(relNameCase{Sample: n}); err != nil {
				return oneLine(err)
			}
		}
		return nil
	})
}
