package c07

import (
	"bufio"
	"errors"
	"fmt"
	"io"
	"io/fs"
	"os"
	"regexp"
	"runtime"
	"strconv"
	"strings"
	"sync"
	"sync/atomic"
	"syscall"
	"testing/fstest"
	"time"

	"github.com/miekg/dns"

	"verif/harness/pbt"
)

// parserCfg is one parser configuration.
type parserCfg struct {
	File      string // file name handed to NewZoneParser
	Origin    string
	BadOrigin bool // Origin is deliberately not a domain name
	HasDefTTL bool
	DefTTL    uint32
	Allowed   bool // SetIncludeAllowed
	UseFS     bool // SetIncludeFS(spy); false = nil FS. (Allowed && !UseFS is never generated: it would reach os.Open)

	// Fault (optional): reading FaultFile fails after FaultAt octets with an error of FaultKind.
	FaultFile  string `json:",omitempty"`
	FaultAt    int    `json:",omitempty"`
	FaultKind  int    `json:",omitempty"`
	ByteReader bool   `json:",omitempty"` // the faulty top-level reader implements io.ByteReader
	// Round 10: how the failure is delivered (all zero = the reader of the earlier rounds: it
	// delivers as much as fits per call and keeps failing once it has failed).
	FaultOnce  bool `json:",omitempty"` // the reader fails once and goes on with the text afterwards (EAGAIN, a timeout, an error that is reported once)
	FaultChunk int  `json:",omitempty"` // a Read call delivers at most this many octets (0 = as many as fit)
	FaultWith  int  `json:",omitempty"` // the failing Read call delivers up to this many octets (those in front of FaultAt) together with the error
	Bufio      int  `json:",omitempty"` // > 0: the top-level reader is handed in as a *bufio.Reader of this size

	// GenBytes (optional): octets of text that the $GENERATE directives of the input expand to
	// (steps x length of the template); they count as input for the allocation bound.
	GenBytes int `json:",omitempty"`
}

// ---------------------------------------------------------------------------------------------
// read faults

var errSentinel = errors.New("harness: injected read failure")

type timeoutErr struct{}

func (timeoutErr) Error() string   { return "harness: i/o timeout" }
func (timeoutErr) Timeout() bool   { return true }
func (timeoutErr) Temporary() bool { return true }

var faultKindNames = []string{"sentinel", "unexpected-eof", "wraps-eof", "wraps-unexpected-eof", "path-error", "timeout", "wraps-eof-deep"}

// faultErr is the error a faulty reader reports.
func faultErr(kind int) error {
	switch kind {
	case 1:
		return io.ErrUnexpectedEOF
	case 2:
		return fmt.Errorf("connection lost: %w", io.EOF)
	case 3:
		return fmt.Errorf("short read: %w", io.ErrUnexpectedEOF)
	case 4:
		return &fs.PathError{Op: "read", Path: "zone", Err: errors.New("input/output error")}
	case 5:
		return timeoutErr{}
	case 6:
		return fmt.Errorf("outer: %w", fmt.Errorf("inner: %w", io.EOF))
	}
	return errSentinel
}

// faultReader delivers data[:at] and then fails. With once it fails one time only: the next call
// goes on with data[at:] and the input ends in io.EOF as if nothing had happened. chunk limits what
// one Read call delivers; with is the number of octets (the last ones in front of at) that the
// failing call delivers together with its error, as io.Reader permits.
type faultReader struct {
	data  []byte
	at    int
	pos   int
	err   error
	once  bool
	chunk int
	with  int
	fired bool
}

func (r *faultReader) Read(p []byte) (int, error) {
	if len(p) == 0 {
		return 0, nil
	}
	lim := len(p)
	if r.chunk > 0 && r.chunk < lim {
		lim = r.chunk
	}
	if r.fired {
		if !r.once {
			return 0, r.err
		}
		if r.pos >= len(r.data) {
			return 0, io.EOF
		}
		n := copy(p[:lim], r.data[r.pos:])
		r.pos += n
		return n, nil
	}
	rest := r.at - r.pos
	if rest <= r.with && rest <= lim {
		// the failing call: the octets that are left in front of the failure, and the error
		n := copy(p, r.data[r.pos:r.at])
		r.pos += n
		r.fired = true
		return n, r.err
	}
	n := rest
	if rest > r.with {
		n = rest - r.with
	}
	n = copy(p[:min(n, lim)], r.data[r.pos:r.at])
	r.pos += n
	return n, nil
}

type faultByteReader struct{ faultReader }

func (r *faultByteReader) ReadByte() (byte, error) {
	if r.fired && !r.once {
		return 0, r.err
	}
	if !r.fired && r.pos >= r.at {
		r.fired = true
		return 0, r.err
	}
	if r.pos >= len(r.data) {
		return 0, io.EOF
	}
	b := r.data[r.pos]
	r.pos++
	return b, nil
}

// faultFile is an fs.File whose Read fails.
type faultFile struct {
	faultReader
	name string
}

func (f *faultFile) Stat() (fs.FileInfo, error) { return nil, errors.New("stat not supported") }
func (f *faultFile) Close() error               { return nil }

// faultFS serves one file through a faultFile, the rest from inner.
type faultFS struct {
	inner fs.FS
	file  string
	data  []byte
	at    int
	err   error
	once  bool
	chunk int
	with  int
}

func (f *faultFS) Open(name string) (fs.File, error) {
	if name == f.file {
		// (every Open gets a reader of its own: a file that is included twice fails once each time)
		return &faultFile{faultReader: faultReader{data: f.data, at: f.at, err: f.err, once: f.once, chunk: f.chunk, with: f.with}, name: name}, nil
	}
	return f.inner.Open(name)
}

// depthProbe measures the call depth under which the parser reads its input: heap counters do not
// see stack memory, so recursion per input line is looked for here. The depth is sampled from
// inside Read/ReadByte of every reader the parser gets (top-level text and include files).
type depthProbe struct {
	max   int
	count int
	pcs   []uintptr
}

// progress counts what a parse visibly does: every octet (or block) that the parser takes from a
// reader handed to it, every record it returns, every record the consumers have worked through. It
// is read by the watchdog from another goroutine.
var progress atomic.Int64

const depthCap = 4096

func (d *depthProbe) sample() {
	if d.pcs == nil {
		d.pcs = make([]uintptr, depthCap)
	}
	if n := runtime.Callers(0, d.pcs); n > d.max {
		d.max = n
	}
}

type probeReader struct {
	r io.Reader
	d *depthProbe
}

func (p *probeReader) Read(b []byte) (int, error) {
	progress.Add(1)
	p.d.sample()
	return p.r.Read(b)
}

type probeByteReader struct {
	probeReader
	br io.ByteReader
}

func (p *probeByteReader) ReadByte() (byte, error) {
	progress.Add(1)
	if p.d.count++; p.d.count&63 == 0 {
		p.d.sample()
	}
	return p.br.ReadByte()
}

func probe(r io.Reader, d *depthProbe) io.Reader {
	if br, ok := r.(io.ByteReader); ok {
		return &probeByteReader{probeReader{r, d}, br}
	}
	return &probeReader{r, d}
}

type probeFile struct {
	fs.File
	d *depthProbe
}

func (f *probeFile) Read(b []byte) (int, error) {
	progress.Add(1)
	f.d.sample()
	return f.File.Read(b)
}

// depthBase is far above what a parse needs (about 10 frames, plus about 3 per level of
// $INCLUDE / $GENERATE nesting, of which there are at most 8).
const depthBase = 100

// spyFS counts Open calls.
type spyFS struct {
	inner fs.FS
	mu    sync.Mutex
	opens []string
	limit int // Open fails beyond this many calls (keeps a runaway recursion finite)
	probe *depthProbe
}

func (s *spyFS) Open(name string) (fs.File, error) {
	s.mu.Lock()
	s.opens = append(s.opens, name)
	n := len(s.opens)
	s.mu.Unlock()
	if s.limit > 0 && n > s.limit {
		return nil, fmt.Errorf("spy: more than %d Open calls", s.limit)
	}
	f, err := s.inner.Open(name)
	if err == nil && s.probe != nil {
		return &probeFile{f, s.probe}, nil
	}
	return f, err
}

// openBound: with at most k $INCLUDE lines per file and nesting limited to depth 7, at most
// k + k^2 + ... + k^7 files can be opened.
func openBound(files map[string]string) int {
	k := 0
	for _, t := range files {
		n := 0
		for _, line := range strings.Split(normLex(t), "\n") {
			c := strings.Count(line, "$INCLUDE")
			if g := strings.Index(line, "$GENERATE"); g >= 0 && strings.Contains(line, "INCLUDE") {
				// an $INCLUDE made by a $GENERATE is executed once per step
				steps := 65536
				if f := strings.Fields(line[g:]); len(f) > 1 {
					var a, b, st int64 = 0, 0, 1
					rng, step, hasStep := strings.Cut(f[1], "/")
					lo, hi, ok := strings.Cut(rng, "-")
					var e1, e2, e3 error
					a, e1 = strconv.ParseInt(lo, 10, 64)
					b, e2 = strconv.ParseInt(hi, 10, 64)
					if hasStep {
						st, e3 = strconv.ParseInt(step, 10, 64)
					}
					if ok && e1 == nil && e2 == nil && e3 == nil && st > 0 && a >= 0 && b >= a && (b-a)/st < 65536 {
						steps = int((b-a)/st) + 1
					}
				}
				if c == 0 {
					c = 1
				}
				c *= steps
			}
			n += c
			if n > 1000000 {
				break
			}
		}
		if n > k {
			k = n
		}
	}
	// (the bound is capped to keep a runaway recursion finite; one file alone can hold more
	// $INCLUDE lines than the cap - thorough directive runs have up to 400000 -, and these are
	// all opened legitimately)
	limit := max(200000, 2*k)
	total, p := 0, 1
	for d := 1; d <= 7; d++ {
		if k > 0 && p > limit/k {
			return limit
		}
		p *= k
		total += p
		if total > limit {
			return limit
		}
	}
	return total
}

func (s *spyFS) Opens() []string {
	s.mu.Lock()
	defer s.mu.Unlock()
	return append([]string(nil), s.opens...)
}

// outcome is what one parse did.
type outcome struct {
	First  []dns.RR // the first keepRecords records
	N      int      // number of records returned
	Err    error
	Opens  []string
	Alloc  uint64 // bytes allocated during the parse (runtime TotalAlloc delta)
	Bound  uint64 // the allocation bound that applied
	Depth  int    // deepest call stack (frames) seen from inside the readers handed to the parser
	Stack  int64  // growth of the memory in use by goroutine stacks during the parse (runtime StackInuse delta)
	Millis int64
}

const keepRecords = 1000

// The watchdog is far above any legitimate cost: 20 s for small inputs (they parse in
// milliseconds), plus 2 s per $GENERATE in the files (65 536 records take well under 0.1 s each
// time) and 2 s per 64 KiB of text; the old flat 120 s remain the value for NewRR.
var watchdog = 120 * time.Second

func watchdogFor(files map[string]string) time.Duration {
	d := 20 * time.Second
	for _, t := range files {
		d += time.Duration(countGenerate(t))*2*time.Second + time.Duration(len(t)/65536)*2*time.Second
		// and 1 s per MiB of text that the $GENERATE directives expand to
		d += time.Duration(generateExpansion(t)>>20) * time.Second
	}
	if d > 300*time.Second {
		d = 300 * time.Second
	}
	return d
}

// A hang is also told from a slow parse by what it consumes: a parse that spins uses CPU time
// and does nothing that can be seen from outside (it takes no octet from its readers and returns
// no record), a parse that is merely kept waiting by a loaded machine uses none. stallBudget is the
// CPU time (user + system, of the whole process: the parse is the only thing that runs in it) that
// a parse may use without any visible progress: a quarter of the watchdog period, i.e. 5 s for
// small inputs (between two octets the parser does microseconds of work; the longest steps without
// a reader call are the expansion of a $GENERATE that yields no record, which the period grows
// with, and decoding one long token: milliseconds). The wall-clock rule (4 periods) stays for
// parses that hang without using CPU time.
func stallBudget(wd time.Duration) time.Duration { return wd / 4 }

var rusage syscall.Rusage // (package level: reading it must not allocate inside the measured window)

// cpuTime: CPU time used by the process so far; false where the system does not tell.
func cpuTime() (time.Duration, bool) {
	if err := syscall.Getrusage(syscall.RUSAGE_SELF, &rusage); err != nil {
		return 0, false
	}
	return time.Duration(rusage.Utime.Nano() + rusage.Stime.Nano()), true
}

// stallWatch follows one parse from the watching goroutine.
type stallWatch struct {
	budget   time.Duration
	last     int64
	cpuMark  time.Duration
	wallMark time.Time
	ok       bool
}

func newStallWatch(wd time.Duration) *stallWatch {
	w := &stallWatch{budget: stallBudget(wd), last: progress.Load(), wallMark: time.Now()}
	w.cpuMark, w.ok = cpuTime()
	return w
}

// stalled: the CPU time used since the last visible progress, once it exceeds the budget.
func (w *stallWatch) stalled() (time.Duration, bool) {
	if !w.ok {
		return 0, false
	}
	cpu, ok := cpuTime()
	if !ok {
		return 0, false
	}
	if p := progress.Load(); p != w.last {
		w.last, w.cpuMark, w.wallMark = p, cpu, time.Now()
		return 0, false
	}
	if used := cpu - w.cpuMark; used >= w.budget && time.Since(w.wallMark) >= w.budget {
		return used, true
	}
	return 0, false
}

// hangSeen is set when a watchdog fired during the current case: such a violation is reported as
// it is (pbt.NoShrink) - every further execution would leave another spinning goroutine behind.
var hangSeen bool

// noShrink wraps a check so that a violation caused by a hang is not shrunk.
func noShrink[C any](f func(C) error) func(C) error {
	return func(c C) error {
		hangSeen = false
		err := f(c)
		if err != nil && hangSeen {
			return pbt.NoShrink{Err: err}
		}
		return err
	}
}

var lineRe = regexp.MustCompile(` at line: (\d+):(\d+)$`)

func countLines(s string) int { return strings.Count(s, "\n") + 1 }

// normLex is the text as far as keyword spotting is concerned: the lexer drops parentheses and
// carriage returns inside tokens, keywords are case-insensitive (ASCII).
func normLex(s string) string { return asciiUpper(stripLex(s)) }

// stripLex removes what the lexer drops inside tokens.
func stripLex(s string) string {
	b := make([]byte, 0, len(s))
	for i := 0; i < len(s); i++ {
		if c := s[i]; c != '(' && c != ')' && c != '\r' {
			b = append(b, c)
		}
	}
	return string(b)
}

// asciiUpper keeps the length (unlike strings.ToUpper on arbitrary bytes).
func asciiUpper(s string) string {
	b := []byte(s)
	for i, c := range b {
		if c >= 'a' && c <= 'z' {
			b[i] = c - 32
		}
	}
	return string(b)
}

func countGenerate(s string) int { return strings.Count(normLex(s), "$GENERATE") }

func maxLineLen(s string) int {
	m := 0
	for _, l := range strings.Split(s, "\n") {
		if len(l) > m {
			m = len(l)
		}
	}
	return m
}

// Allocation bound: K0 + C*bytes read + per record (R0 + C*longest line). The constants are about
// ten times what the unchanged library needs on the generated inputs (see SENSITIVITY.md).
const (
	allocK0 = 1 << 20
	// per input octet: the lexer allocates two 512-octet buffers per token it reads, i.e. up to
	// 512 octets per octet of token-dense text ("a a a a ..."); <= 20 on long tokens
	allocC  = 1024
	allocR0 = 2048
	allocRL = 32 // per record and octet of the longest line (observed: ~5 for $GENERATE lines)
)

// generateExpansion is an upper estimate of the number of octets that the $GENERATE directives
// of one file expand to: steps x (length of the logical line + 24 per "$").
func generateExpansion(raw string) int {
	if !strings.Contains(normLex(raw), "$GENERATE") {
		return 0
	}
	const limit = 1 << 40
	up := asciiUpper(raw)
	total, found := 0, false
	for from := 0; from < len(up); {
		g := strings.Index(up[from:], "$GENERATE")
		if g < 0 {
			break
		}
		from += g + len("$GENERATE")
		found = true
		rest := raw[from:]
		steps := 65536
		if f := strings.Fields(stripLex(rest[:min(len(rest), 100)])); len(f) > 0 {
			if n, ok := rangeSteps(f[0]); ok {
				steps = n
			}
		}
		n := logicalLineLen(rest)
		if total += steps * (n + 24*strings.Count(rest[:n], "$") + 1); total > limit {
			return limit
		}
	}
	if !found {
		// the keyword is interleaved with parentheses or carriage returns
		return min(limit, 65536*25*len(raw))
	}
	return total
}

// maxExpansion is a cost cap of the generators (not a class of inputs that misbehaves): a file
// whose $GENERATE directives expand to more text than this (a full range in front of a template
// that an open quote extends over the rest of a large file: gigabytes) takes minutes to read.
const maxExpansion = 32 << 20

// capExpansion rewrites the range of every $GENERATE whose expansion exceeds maxExpansion to 1-2.
func capExpansion(raw string) string {
	if generateExpansion(raw) <= maxExpansion {
		return raw
	}
	up := asciiUpper(raw)
	share := maxExpansion / max(1, strings.Count(up, "$GENERATE"))
	var sb strings.Builder
	last := 0
	for from := 0; from < len(up); {
		g := strings.Index(up[from:], "$GENERATE")
		if g < 0 {
			break
		}
		from += g + len("$GENERATE")
		rest := raw[from:]
		i := 0
		for i < len(rest) && (rest[i] == ' ' || rest[i] == '\t') {
			i++
		}
		j := i
		for j < len(rest) && rest[j] != ' ' && rest[j] != '\t' && rest[j] != '\n' {
			j++
		}
		steps := 65536
		if n, ok := rangeSteps(stripLex(rest[i:j])); ok {
			steps = n
		}
		if from+i < last {
			continue // the keyword is part of the range token that was just replaced
		}
		if n := logicalLineLen(rest); steps*(n+24*strings.Count(rest[:n], "$")+1) > share && j > i {
			sb.WriteString(raw[last : from+i])
			sb.WriteString("1-2")
			last = from + j
		}
	}
	sb.WriteString(raw[last:])
	return sb.String()
}

// rangeSteps: the number of steps of a well-formed range start-stop[/step] (the conditions of the
// $GENERATE syntax: decimal numbers, 0 <= start <= stop, step > 0, at most 65536 steps).
func rangeSteps(tok string) (int, bool) {
	var st int64 = 1
	rng, step, hasStep := strings.Cut(tok, "/")
	lo, hi, ok := strings.Cut(rng, "-")
	a, e1 := strconv.ParseInt(lo, 10, 64)
	b, e2 := strconv.ParseInt(hi, 10, 64)
	var e3 error
	if hasStep {
		st, e3 = strconv.ParseInt(step, 10, 64)
	}
	if ok && e1 == nil && e2 == nil && e3 == nil && st > 0 && a >= 0 && b >= a && (b-a)/st < 65536 {
		return int((b-a)/st) + 1, true
	}
	return 0, false
}

// logicalLineLen: the length of the logical line that s starts with, including its line end: a
// line end inside quotes, inside parentheses or behind a backslash does not end it.
func logicalLineLen(s string) int {
	n, _ := logicalLine(s)
	return n
}

// logicalLine also tells whether s ended inside a quoted string before the line did.
func logicalLine(s string) (int, bool) {
	esc, quote, comment := false, false, false
	depth := 0
	for i := 0; i < len(s); i++ {
		c := s[i]
		if comment {
			if c == '\n' {
				if comment = false; depth <= 0 {
					return i + 1, false
				}
			}
			continue
		}
		if esc {
			esc = false
			continue
		}
		switch c {
		case '\\':
			esc = true
		case '"':
			quote = !quote
		case ';':
			comment = !quote
		case '(':
			if !quote {
				depth++
			}
		case ')':
			if !quote {
				depth--
			}
		case '\n':
			if !quote && depth <= 0 {
				return i + 1, false
			}
		}
	}
	return len(s), quote
}

// generateInOpenQuote: the logical line of a $GENERATE directive of the text runs to the end of
// the text inside a quoted string that is never closed.
func generateInOpenQuote(raw string) bool {
	if !strings.Contains(normLex(raw), "$GENERATE") {
		return false
	}
	up := asciiUpper(raw)
	found := false
	for from := 0; from < len(up); {
		g := strings.Index(up[from:], "$GENERATE")
		if g < 0 {
			break
		}
		from += g + len("$GENERATE")
		found = true
		if _, open := logicalLine(raw[from:]); open {
			return true
		}
	}
	if !found {
		_, open := logicalLine(raw)
		return open
	}
	return false
}

// stackBound: a parse needs a few KiB of stack (the depth limit above: 100 frames); the stacks of
// the other goroutines of the test process do not move. 1 MiB is reached by about 4000 frames.
const stackBound = 1 << 20

// runParser feeds files[cfg.File] to a ZoneParser under cfg and applies the safety oracle of
// DESIGN C07. The returned error is a violation; the outcome is valid either way.
func runParser(files map[string]string, cfg parserCfg, perRecord func(dns.RR)) (*outcome, error) {
	out, viol, resource := runParserOnce(files, cfg, perRecord)
	// The allocation counter and the stack gauge are those of the whole process: a reading above
	// its bound is confirmed by repeating the same parse (fresh parser, same inputs) after a
	// garbage collection; what the input costs is a function of the input and shows every time,
	// what something else in the process did meanwhile does not.
	for i := 0; i < confirmRuns && viol != nil && resource; i++ {
		runtime.GC()
		out, viol, resource = runParserOnce(files, cfg, perRecord)
	}
	return out, viol
}

// runawayHeap: growth of the live heap during one parse that ends the run (see runParserOnce).
const runawayHeap = 2 << 30

var (
	heapTicker *time.Ticker
	heapStats  runtime.MemStats
)

// confirmRuns: how often a resource reading above its bound is measured again.
const confirmRuns = 3

// runParserOnce is one parse under the oracle; resource tells that the violation is a reading of
// a process-wide gauge (allocation, stack growth) above its bound.
func runParserOnce(files map[string]string, cfg parserCfg, perRecord func(dns.RR)) (*outcome, error, bool) {
	top := files[cfg.File]
	m := fstest.MapFS{}
	for name, txt := range files {
		if name != cfg.File {
			m[name] = &fstest.MapFile{Data: []byte(txt)}
		}
	}
	var inner fs.FS = m
	var injected error
	if cfg.FaultFile != "" {
		injected = faultErr(cfg.FaultKind)
		if cfg.FaultFile != cfg.File {
			d := []byte(files[cfg.FaultFile])
			inner = &faultFS{inner: m, file: cfg.FaultFile, data: d, at: min(max(cfg.FaultAt, 0), len(d)), err: injected,
				once: cfg.FaultOnce, chunk: max(cfg.FaultChunk, 0), with: max(cfg.FaultWith, 0)}
		}
	}
	dp := &depthProbe{}
	spy := &spyFS{inner: inner, probe: dp}
	maxOpens := openBound(files)
	spy.limit = maxOpens + 1

	type result struct {
		out  *outcome
		viol error
	}
	done := make(chan result, 1)
	wd := watchdogFor(files) // before the parse starts: it scans (and copies) every file
	timer := time.NewTimer(wd)
	stall := newStallWatch(wd)
	runtime.ReadMemStats(&heapStats)
	heapStart := heapStats.HeapAlloc
	go func() {
		out := &outcome{}
		var viol error
		defer func() {
			if r := recover(); r != nil {
				buf := make([]byte, 1<<14)
				buf = buf[:runtime.Stack(buf, false)]
				viol = fmt.Errorf("panic: %v\n%s", r, buf)
			}
			done <- result{out, viol}
		}()
		start := time.Now()
		var ms1, ms2 runtime.MemStats
		runtime.ReadMemStats(&ms1)
		var rd io.Reader = strings.NewReader(top)
		if cfg.FaultFile == cfg.File && cfg.FaultFile != "" {
			fr := faultReader{data: []byte(top), at: min(max(cfg.FaultAt, 0), len(top)), err: injected,
				once: cfg.FaultOnce, chunk: max(cfg.FaultChunk, 0), with: max(cfg.FaultWith, 0)}
			if cfg.ByteReader {
				rd = &faultByteReader{fr}
			} else {
				rd = &fr
			}
		}
		rd = probe(rd, dp)
		if cfg.Bufio > 0 && !cfg.ByteReader {
			// the caller's own *bufio.Reader (the probe sits below it: the parser must see the type)
			rd = bufio.NewReaderSize(rd, cfg.Bufio)
		}
		zp := dns.NewZoneParser(rd, cfg.Origin, cfg.File)
		if cfg.HasDefTTL {
			zp.SetDefaultTTL(cfg.DefTTL)
		}
		zp.SetIncludeAllowed(cfg.Allowed)
		if cfg.UseFS {
			zp.SetIncludeFS(spy)
		}
		// hard cap on the number of records: every physical line of every file, visited at most
		// once per Open, yields at most one record, a $GENERATE line at most 65 536.
		capRecords := func() int {
			n := countLines(top) + 65536*countGenerate(top)
			for _, o := range spy.Opens() {
				if f, ok := files[o]; ok {
					n += countLines(f) + 65536*countGenerate(f)
				}
			}
			return n
		}
		for {
			rr, ok := zp.Next()
			if !ok {
				if rr != nil {
					viol = fmt.Errorf("Next returned (%v, false)", rr)
				}
				break
			}
			if rr == nil {
				viol = fmt.Errorf("Next returned (nil, true)")
				break
			}
			if e := zp.Err(); e != nil {
				viol = fmt.Errorf("a record was returned although Err() = %v", e)
				break
			}
			out.N++
			progress.Add(1)
			if len(out.First) < keepRecords {
				out.First = append(out.First, rr)
			}
			if out.N%4096 == 0 || out.N < 64 {
				if c := capRecords(); out.N > c {
					viol = fmt.Errorf("more than %d records returned (lines + 65536 per $GENERATE line, over all files read)", c)
					break
				}
			}
		}
		runtime.ReadMemStats(&ms2)
		out.Alloc = ms2.TotalAlloc - ms1.TotalAlloc
		// the parse runs on this goroutine; a stack only shrinks during a garbage collection (by
		// half each time), so at this point it still has (nearly) the size of its deepest moment
		out.Stack = int64(ms2.StackInuse) - int64(ms1.StackInuse)
		out.Millis = time.Since(start).Milliseconds()
		out.Err = zp.Err()
		out.Opens = spy.Opens()
		out.Depth = dp.max
		if viol != nil {
			return
		}
		// the consumers of the records run outside the measured window: what String, PackRR and
		// Copy allocate is not what reading the zone allocates (HIP.String, for one, is quadratic
		// in the number of rendezvous servers)
		if perRecord != nil {
			for _, rr := range out.First {
				perRecord(rr)
				progress.Add(1)
			}
		}
		if c := capRecords(); out.N > c {
			viol = fmt.Errorf("%d records returned, more than %d (lines + 65536 per $GENERATE line, over all files read)", out.N, c)
			return
		}
		// sticky: every further Next is (nil,false), Err() keeps returning the same error
		for i := 0; i < 3; i++ {
			rr, ok := zp.Next()
			if ok || rr != nil {
				viol = fmt.Errorf("Next after the end returned (%v, %v); first end had Err() = %v", rr, ok, out.Err)
				return
			}
			e := zp.Err()
			if (e == nil) != (out.Err == nil) || (e != nil && (e != out.Err || e.Error() != out.Err.Error())) {
				viol = fmt.Errorf("Err() changed from %v to %v after a further Next", out.Err, e)
				return
			}
		}
	}()

	// (nothing that allocates may run on this goroutine between the start of the parse and its
	// end: the allocation counter read inside the parse goroutine is that of the whole process)
	var res result
	extended := false
	ticker := heapTicker
	if ticker == nil {
		heapTicker = time.NewTicker(250 * time.Millisecond)
		ticker = heapTicker
	}
wait:
	select {
	case res = <-done:
	case <-ticker.C:
		if used, yes := stall.stalled(); yes {
			hangSeen = true
			buf := make([]byte, 1<<20)
			buf = buf[:runtime.Stack(buf, true)]
			if strings.Contains(string(buf), "miekg/dns") {
				return &outcome{}, fmt.Errorf("parse did not finish (input %d octets): it has used %v of CPU time without taking an octet from its readers or returning a record (budget %v; wall-clock limit %v); goroutines:\n%s",
					len(top), used.Round(100*time.Millisecond), stall.budget, time.Duration(confirmRuns+1)*wd, buf), false
			}
			return &outcome{}, fmt.Errorf("harness: the stall watch fired but no goroutine is inside the library"), false
		}
		// a parse that does not end can also eat memory without end (tens of MB per second);
		// the live heap of the test process is otherwise a few dozen MB
		runtime.ReadMemStats(&heapStats)
		if heapStats.HeapAlloc > heapStart+runawayHeap {
			hangSeen = true
			return &outcome{}, fmt.Errorf("the heap in use grew from %d to %d octets while %d octets of input were being parsed and the parse has not ended: unbounded memory (process ends here)", heapStart, heapStats.HeapAlloc, len(top)), false
		}
		goto wait
	case <-timer.C:
		// a parse that is merely slow (loaded machine) ends when it is given more time, a hang
		// does not: the same parse gets three more periods before it is called a hang (the stall
		// watch and the heap watch go on meanwhile)
		if !extended {
			extended = true
			timer.Reset(time.Duration(confirmRuns) * wd)
			goto wait
		}
		hangSeen = true
		buf := make([]byte, 1<<20)
		buf = buf[:runtime.Stack(buf, true)]
		if strings.Contains(string(buf), "miekg/dns") {
			return &outcome{}, fmt.Errorf("parse did not finish within %v (input %d octets); goroutines:\n%s", time.Duration(confirmRuns+1)*wd, len(top), buf), false
		}
		return &outcome{}, fmt.Errorf("harness: watchdog fired but no goroutine is inside the library"), false
	}
	timer.Stop()
	out := res.out
	if res.viol != nil {
		return out, res.viol, false
	}

	// allocation bound
	// (the text that the $GENERATE directives of the files expand to counts as input: an
	// expansion need not end in records - its lines can be blank, or merge into one quoted string)
	bytesRead := len(top) + max(cfg.GenBytes, generateExpansion(top))
	longest := maxLineLen(top)
	for _, o := range out.Opens {
		if f, ok := files[o]; ok {
			bytesRead += len(f) + generateExpansion(f)
			if l := maxLineLen(f); l > longest {
				longest = l
			}
		}
	}
	bound := uint64(allocK0) + uint64(allocC)*uint64(bytesRead) + uint64(out.N+1)*(uint64(allocR0)+uint64(allocRL)*uint64(min(longest, 4096)))
	out.Bound = bound
	if os.Getenv("C07_DEBUG_ALLOC") != "" {
		fmt.Fprintf(os.Stderr, "ALLOC bytes=%d recs=%d longest=%d alloc=%d perbyte=%.1f\n", bytesRead, out.N, longest, out.Alloc, float64(out.Alloc)/float64(bytesRead+1))
	}
	if out.Alloc > bound {
		return out, fmt.Errorf("allocated %d octets for %d octets of input and %d records (bound %d; measured %d times)", out.Alloc, bytesRead, out.N, bound, confirmRuns+1), true
	}

	// stack memory: recursion per octet / token / line of input that happens below the library's
	// own readers (where the depth probe does not reach) shows as growth of the goroutine's stack
	if os.Getenv("C07_DEBUG_ALLOC") != "" {
		fmt.Fprintf(os.Stderr, "STACK bytes=%d stack=%d\n", bytesRead, out.Stack)
	}
	if out.Stack > stackBound {
		return out, fmt.Errorf("the goroutine stacks grew by %d octets while %d octets of input were parsed (bound %d): the parser recurses with its input, which ends in a fatal stack overflow (not recoverable) once the input is large enough", out.Stack, bytesRead, stackBound), true
	}
	// call depth: no recursion per line of input
	if limit := depthLimit(files, out.Opens, cfg.File); out.Depth > limit {
		return out, fmt.Errorf("the parser read its input %d calls deep (limit %d): the call stack grows with the number of input lines", out.Depth, limit), false
	}
	// include nesting is bounded
	if len(out.Opens) > maxOpens {
		return out, fmt.Errorf("%d Open calls; with the nesting limit at most %d are possible for these files", len(out.Opens), maxOpens), false
	}
	// include gate
	if !cfg.Allowed && len(out.Opens) > 0 {
		return out, fmt.Errorf("includes are not allowed but the include FS was opened: %q", out.Opens), false
	}

	// shape of the error
	if out.Err != nil {
		var pe *dns.ParseError
		if injected != nil && (out.Err == injected || errors.Is(out.Err, injected)) {
			// the injected reader failure, reported as it is
			return out, nil, false
		}
		if !errors.As(out.Err, &pe) {
			// a failure of the reader itself (for instance $INCLUDE of a directory of the
			// include FS) is reported as it is; everything else must be a *dns.ParseError
			var perr *fs.PathError
			if errors.As(out.Err, &perr) && len(out.Opens) > 0 {
				return out, nil, false
			}
			return out, fmt.Errorf("Err() is a %T, not a *dns.ParseError: %v", out.Err, out.Err), false
		}
		txt := out.Err.Error()
		if strings.Contains(txt, "dns: bad initial origin name") {
			// the constructor's error about the origin it was given carries no position; it
			// also comes from the sub-parser of a $INCLUDE / $GENERATE when the current origin
			// has grown beyond 255 octets through relative $ORIGIN directives (see the report)
			return out, nil, false
		}
		file := ""
		if strings.HasPrefix(txt, cfg.File+": dns: ") {
			file = cfg.File
		} else {
			for _, o := range out.Opens {
				if strings.HasPrefix(txt, o+": dns: ") {
					file = o
				}
			}
		}
		if file == "" {
			return out, fmt.Errorf("error text does not start with the name of a file that was read (%q, %q): %q", cfg.File, out.Opens, txt), false
		}
		mm := lineRe.FindStringSubmatch(txt)
		if mm == nil {
			return out, fmt.Errorf("error text carries no position: %q", txt), false
		}
		line, _ := strconv.Atoi(mm[1])
		ftxt := files[file]
		maxLine := countLines(ftxt) + 1
		if countGenerate(ftxt) > 0 && genLineRelaxed != nil && genLineRelaxed() {
			// known finding generate-error-line: positions inside the expansion of a $GENERATE
			// count generated lines; a template can hold line ends of its own (inside quotes), at
			// most those of the whole file per step
			maxLine += 65536 * countLines(ftxt)
		}
		if line < 1 || line > maxLine {
			return out, fmt.Errorf("error position line %d is outside the file %q (%d lines): %q", line, file, countLines(ftxt), txt), false
		}
	}
	return out, nil, false
}

// allocClass buckets the share of the allocation bound that was used (histogram only).
func allocClass(o *outcome) string {
	if o.Bound == 0 {
		return "alloc:unknown"
	}
	switch r := float64(o.Alloc) / float64(o.Bound); {
	case r < 0.01:
		return "alloc:<1%-of-bound"
	case r < 0.1:
		return "alloc:1-10%-of-bound"
	case r < 0.5:
		return "alloc:10-50%-of-bound"
	}
	return "alloc:50-100%-of-bound"
}

// depthLimit is depthBase; while the known finding directive-run-recursion is listed and
// reproduces, 8 frames are added per line that holds a $GENERATE or $INCLUDE in the files read
// (the unchanged library recurses once per record-less directive of these two kinds).
var depthRelaxed func() bool

func depthLimit(files map[string]string, opens []string, top string) int {
	if depthRelaxed == nil || !depthRelaxed() {
		return depthBase
	}
	n := 0
	count := func(t string) {
		u := normLex(t)
		n += strings.Count(u, "$GENERATE") + strings.Count(u, "$INCLUDE")
	}
	count(files[top])
	for _, o := range opens {
		count(files[o])
	}
	if n > depthCap {
		n = depthCap
	}
	return depthBase + 8*n
}

// genLineRelaxed: while the known finding generate-error-line is listed and reproduces, the line
// of an error may lie in the generated text instead of the file.
var genLineRelaxed func() bool

// runParserDepth is runParser with the flat depth limit (for the probe of the known finding).
func runParserDepth(files map[string]string, cfg parserCfg) (*outcome, error) {
	saved := depthRelaxed
	depthRelaxed = nil
	defer func() { depthRelaxed = saved }()
	return runParser(files, cfg, nil)
}

func errLine(err error) int {
	if err == nil {
		return -1
	}
	mm := lineRe.FindStringSubmatch(err.Error())
	if mm == nil {
		return -1
	}
	n, _ := strconv.Atoi(mm[1])
	return n
}
