package c07

import (
	"fmt"
	"strings"

	"pgregory.net/rapid"

	"verif/harness/pbt"
	zm "verif/harness/zonemodel"
)

// Round 8: raw high octets in over-long character strings, escapes at the end of every token /
// quoted string / list item, thousands of filler lines inside one pair of parentheses, entries
// that break off at the end of the input behind a blank, positions of errors in generated lines.

// Known findings (round 8).
const (
	// zlexer.Next copies the comment collected so far at every line end inside parentheses.
	kParenComments = "paren-comment-lines-quadratic"
	// an entry or directive that breaks off at the end of the input behind a blank is dropped.
	kEOFBlank = "entry-breaks-off-at-eof"
	// a syntax error in a generated line carries the line number within the generated text.
	kGenLine = "generate-error-line"
)

// ---------------------------------------------------------------------------------------------
// samples of this package: the table of the zone model plus SVCB / HTTPS records with every kind
// of parameter (the values have parsers of their own)

type faultSample struct {
	Type string
	Toks []string
}

var extraSamples = map[string]faultSample{
	"SVCB-params": {"SVCB", []string{"1", "svc.example.net.", "mandatory=alpn,port", "alpn=h2,h3-29", "no-default-alpn", "port=8443", "ipv4hint=192.0.2.1,192.0.2.2", "ech=AAAA",
		"ipv6hint=2001:db8::1,2001:db8::2", "dohpath=/dns-query{?dns}", "ohttp", "tls-supported-groups=29,23", "key65000=abc"}},
	"HTTPS-params": {"HTTPS", []string{"1", ".", `alpn="h2,h3"`, `key65001="a b"`, "ipv4hint=192.0.2.1"}},
}

var extraSampleNames = []string{"SVCB-params", "HTTPS-params"}

func lookupSample(name string) (faultSample, bool) {
	if s, ok := extraSamples[name]; ok {
		return s, true
	}
	if sm, ok := zm.SampleByName(name); ok {
		return faultSample{sm.Name, sm.Tokens}, true
	}
	return faultSample{}, false
}

func allSampleNames() []string {
	var out []string
	for _, sm := range zm.Samples {
		out = append(out, sm.Name)
	}
	return append(out, extraSampleNames...)
}

// lineWith is the text of a type-fault case: the sample's record with its tokens replaced, at the
// place given by tail (0 = two records follow, 1 = last line, 2 = last line without newline).
func lineWith(s faultSample, toks []string, tail int) string {
	line := "first.example.org. 300 IN " + s.Type + " " + strings.Join(toks, " ")
	switch tail {
	case 1:
		return "zero.example.org. 600 IN A 192.0.2.0\n" + line + "\n"
	case 2:
		return "zero.example.org. 600 IN A 192.0.2.0\n" + line
	}
	return line + "\nnext.example.org. 600 IN A 192.0.2.1\nlast.example.org. 600 IN A 192.0.2.2\n"
}

// ---------------------------------------------------------------------------------------------
// fault "high-octets": one RDATA token becomes a token of more than 255 octets made of raw octets
// >= 0x80 (continuation bytes, lead bytes, 0xFF, valid UTF-8, behind ASCII), quoted and unquoted.
// The case holds indices only (raw octets do not survive JSON).

var highPatterns = []func(tok string) string{
	func(string) string { return strings.Repeat("\x80", 300) },
	func(string) string { return "ab" + strings.Repeat("\xa9", 400) },
	func(string) string { return strings.Repeat("\xc3", 300) },
	func(string) string { return strings.Repeat("\x80\xbf\x9c", 200) },
	func(string) string { return strings.Repeat("\xc3\xa9", 200) }, // valid UTF-8
	func(string) string { return strings.Repeat("\xff", 300) },
	func(tok string) string { return strings.Trim(tok, "\"") + strings.Repeat("\x80", 260) },
	func(string) string { return strings.Repeat("a", 254) + strings.Repeat("\x80", 300) },
	func(string) string { return strings.Repeat("\xe2\x82", 150) + "x" + strings.Repeat("\xbf", 256) },
	func(string) string { return strings.Repeat("\x80", 255) },
	func(string) string { return strings.Repeat("\x80", 256) },
}

func highText(c typeFaultCase) (string, bool) {
	s, ok := lookupSample(c.Sample)
	if !ok || c.Tok < 0 || c.Tok >= len(s.Toks) || c.Var < 0 || c.Var >= 2*len(highPatterns) {
		return "", false
	}
	toks := append([]string(nil), s.Toks...)
	v := highPatterns[c.Var/2](toks[c.Tok])
	if c.Var%2 == 1 {
		v = "\"" + v + "\""
	}
	toks[c.Tok] = v
	return lineWith(s, toks, c.Tail), true
}

// ---------------------------------------------------------------------------------------------
// fault "escape-end": an escape that is cut short (or just complete) at the END of an RDATA token,
// of a quoted string, of the value behind "=", of every comma-separated item.

var escapeTails = []string{"\\", "\\1", "\\12", "\\123", "\\1x", "\\12x", "\\x", "\\\\", "\\\\\\12", "\\,\\12", "\\256", "\\0"}

// escapeEndVariants: the spellings of tok with tail number t at each of its ends.
func escapeEndVariants(tok string, t int) []string {
	tail := escapeTails[t]
	seen := map[string]bool{}
	var out []string
	add := func(v string) {
		if !seen[v] {
			seen[v] = true
			out = append(out, v)
		}
	}
	if len(tok) >= 2 && tok[0] == '"' && tok[len(tok)-1] == '"' {
		add(tok[:len(tok)-1] + tail + "\"")
		add(tok[:len(tok)-1] + tail) // and the closing quote gone
		return out
	}
	add(tok + tail)
	add("\"" + tok + tail + "\"")
	if k, v, ok := strings.Cut(tok, "="); ok {
		v = strings.Trim(v, "\"")
		add(k + "=\"" + v + tail + "\"")
		add(k + "=" + tail)
		tok = v
		// the items of the value
		items := strings.Split(v, ",")
		for i := range items[:len(items)-1] {
			w := append([]string(nil), items...)
			w[i] += tail
			add(k + "=" + strings.Join(w, ","))
			add(k + "=\"" + strings.Join(w, ",") + "\"")
		}
	} else if strings.Contains(tok, ",") {
		items := strings.Split(tok, ",")
		for i := range items[:len(items)-1] {
			w := append([]string(nil), items...)
			w[i] += tail
			add(strings.Join(w, ","))
		}
	}
	return out
}

func escapeEndText(c typeFaultCase) (string, bool) {
	s, ok := lookupSample(c.Sample)
	if !ok || c.Tok < 0 || c.Tok >= len(s.Toks) || c.Var < 0 {
		return "", false
	}
	t, v := c.Var%len(escapeTails), c.Var/len(escapeTails)
	vs := escapeEndVariants(s.Toks[c.Tok], t)
	if v >= len(vs) {
		return "", false
	}
	toks := append([]string(nil), s.Toks...)
	toks[c.Tok] = vs[v]
	return lineWith(s, toks, c.Tail), true
}

func eachRound8TypeFault(emit func(typeFaultCase)) {
	for _, name := range allSampleNames() {
		s, _ := lookupSample(name)
		for ti, tok := range s.Toks {
			for v := 0; v < 2*len(highPatterns); v++ {
				emit(typeFaultCase{Sample: name, Fault: "high-octets", Tok: ti, Var: v})
			}
			for t := range escapeTails {
				for v := range escapeEndVariants(tok, t) {
					for _, tail := range []int{0, 2} {
						emit(typeFaultCase{Sample: name, Fault: "escape-end", Tok: ti, Var: v*len(escapeTails) + t, Tail: tail})
					}
				}
			}
		}
	}
}

// checkRound8TypeFault: safety (no panic, ends, memory) and "an error, or nothing behind the line
// is lost". A quote that is not closed or a backslash in front of the line end legitimately takes
// the following lines into the token; then an error is required only if records are lost.
func checkRound8TypeFault(c typeFaultCase) (error, bool) {
	var text string
	var ok bool
	switch c.Fault {
	case "high-octets":
		text, ok = highText(c)
	case "escape-end":
		text, ok = escapeEndText(c)
	default:
		return nil, false
	}
	if !ok {
		pbt.Note(nil, false, "invalid-case")
		return nil, true
	}
	pbt.Note([]byte(fmt.Sprintf("%s/%s/%d/%d/%d", c.Sample, c.Fault, c.Tok, c.Var, c.Tail)), true, "type-fault:"+c.Sample, "fault:"+c.Fault, fmt.Sprintf("type-fault:tail=%d", c.Tail))
	return evalTypeFault(c, text), true
}

// ---------------------------------------------------------------------------------------------
// one record inside one pair of parentheses with thousands of filler lines

type fillerCase struct {
	Type   string // TXT | A | MX
	Filler int    // index into fillerLines
	N      int
	Where  int // 0 = before the RDATA, 1 = between RDATA tokens, 2 = behind the RDATA
}

// Comment texts have an odd length (with the ";"), so that the comment collected inside the
// parentheses (text + 1 per line) never has a length of 511 modulo 512 at a ";" - the class of the
// C06 finding comment-511-in-parens, which ends such input with an error.
var fillerLines = []string{"; c", ";", "  ; cc c", "", " ", "\t; c234567890123456789012345678901234567890", ";;;", " ;c;"}

var fillerTokens = []string{"x", "\"q r\"", "x ; c", "\"q\" ;"}

func fillerLine(i int) string {
	if i < len(fillerLines) {
		return fillerLines[i]
	}
	return fillerTokens[(i-len(fillerLines))%len(fillerTokens)]
}

const fillerKinds = 12 // len(fillerLines) + len(fillerTokens)

func hasComment(filler int) bool { return strings.Contains(fillerLine(filler), ";") }

const maxKnownFillerLines = 800

func genFiller(t *rapid.T) fillerCase {
	c := fillerCase{Type: rapid.SampledFrom([]string{"TXT", "TXT", "A", "MX"}).Draw(t, "type"), Filler: rapid.IntRange(0, fillerKinds-1).Draw(t, "filler"),
		Where: rapid.IntRange(0, 2).Draw(t, "where")}
	c.N = rapid.IntRange(2000, 12000).Draw(t, "n")
	if pbt.Thorough() && rapid.IntRange(0, 4).Draw(t, "big") == 0 {
		c.N = rapid.IntRange(12000, 60000).Draw(t, "nbig")
	}
	if c.Filler >= len(fillerLines) && c.Type != "TXT" {
		c.Type = "TXT" // token lines are RDATA: only TXT takes any number of them
	}
	if pbt.Known(kParenComments) && hasComment(c.Filler) && c.N > maxKnownFillerLines {
		pbt.Excluded(kParenComments)
		c.N = maxKnownFillerLines
	}
	return c
}

func eachFiller(emit func(fillerCase)) {
	for f := 0; f < fillerKinds; f++ {
		n := 6000
		if pbt.Known(kParenComments) && hasComment(f) {
			pbt.Excluded(kParenComments)
			n = maxKnownFillerLines
		}
		for w := 0; w < 3; w++ {
			emit(fillerCase{Type: "TXT", Filler: f, N: n, Where: w})
		}
		if f < len(fillerLines) {
			emit(fillerCase{Type: "MX", Filler: f, N: n, Where: 1})
		}
	}
}

func fillerText(c fillerCase) (string, bool) {
	if c.Filler < 0 || c.Filler >= fillerKinds || c.N < 0 || c.N > 200000 || c.Where < 0 || c.Where > 2 {
		return "", false
	}
	var rd []string
	switch c.Type {
	case "TXT":
		rd = []string{"\"a\"", "b"}
	case "A":
		rd = []string{"192.0.2.7"}
	case "MX":
		rd = []string{"10", "mail.example.org."}
	default:
		return "", false
	}
	if c.Filler >= len(fillerLines) && c.Type != "TXT" {
		return "", false
	}
	fill := strings.Repeat(fillerLine(c.Filler)+"\n", c.N)
	var sb strings.Builder
	sb.WriteString("zero.example.org. 600 IN A 192.0.2.0\nfirst.example.org. 300 IN " + c.Type + " ( ; cc\n")
	switch c.Where {
	case 0:
		sb.WriteString(fill + " " + strings.Join(rd, " ") + " )\n")
	case 1:
		sb.WriteString(" " + rd[0] + "\n" + fill + " " + strings.Join(rd[1:], " ") + " )\n")
	default:
		sb.WriteString(" " + strings.Join(rd, " ") + "\n" + fill + " )\n")
	}
	sb.WriteString("next.example.org. 600 IN A 192.0.2.1\n")
	return sb.String(), true
}

func checkFiller(c fillerCase) error {
	text, ok := fillerText(c)
	if !ok {
		pbt.Note(nil, false, "invalid-case")
		return nil
	}
	out, viol := runParser(map[string]string{"f.db": text}, parserCfg{File: "f.db", Origin: "example.org."}, nil)
	pbt.Note([]byte(fmt.Sprint(c)), true, "filler:"+c.Type, fmt.Sprintf("filler:kind=%d", c.Filler), fmt.Sprintf("filler:where=%d", c.Where), "filler:lines="+bucket(c.N/1000), allocClass(out),
		fmt.Sprintf("filler:err=%v", out.Err != nil))
	ctx := func() string {
		return fmt.Sprintf("%s record in one pair of parentheses with %d lines %q (where=%d), %d octets: %d records, err=%v", c.Type, c.N, fillerLine(c.Filler), c.Where, len(text), out.N, out.Err)
	}
	if viol != nil {
		return pbt.Errf("%s\n%s", strings.SplitN(viol.Error(), "\n", 2)[0], ctx())
	}
	if out.Err == nil && out.N != 3 {
		return pbt.Errf("no error and %d records, want 3\n%s", out.N, ctx())
	}
	return nil
}

// ---------------------------------------------------------------------------------------------
// an entry or directive that breaks off at the end of the input behind a blank: the header of a
// record (owner, TTL, class in both orders) without a type, a directive keyword without argument.
// Such a line is not an entry of a zone file; it must end in an error.

type cutCase struct {
	Line  int // index into cutLines
	Blank int // index into cutBlanks
	// Place: 0 = last line of the input, 1 = last line of an included file (the includer goes on)
	Place int
}

// (round 9: and no blank at all - a line that ends in a TTL, "rel 300", is dropped as well)
var cutBlanks = []string{" ", "\t", "   ", " \t ", ""}

var cutLines = func() []string {
	var out []string
	for _, owner := range []string{"first.example.org.", "@", "rel"} {
		out = append(out, owner)
		for _, h := range []string{"300", "IN", "CLASS1", "300 IN", "IN 300", "1h CH"} {
			out = append(out, owner+" "+h)
		}
	}
	// the owner left out (the line starts with a blank)
	for _, h := range []string{"300", "IN", "300 IN", "IN 300"} {
		out = append(out, " "+h)
	}
	return append(out, "$TTL", "$ORIGIN", "$INCLUDE", "$GENERATE", "$ttl", "$Origin")
}()

func eachCut(emit func(cutCase)) {
	if pbt.Known(kEOFBlank) {
		pbt.Excluded(kEOFBlank)
		return
	}
	for l := range cutLines {
		for b := range cutBlanks {
			for p := 0; p < 2; p++ {
				emit(cutCase{Line: l, Blank: b, Place: p})
			}
		}
	}
}

func evalCut(c cutCase) error {
	if c.Line < 0 || c.Line >= len(cutLines) || c.Blank < 0 || c.Blank >= len(cutBlanks) || c.Place < 0 || c.Place > 1 {
		return nil
	}
	cut := cutLines[c.Line] + cutBlanks[c.Blank]
	files := extraFiles()
	want := 1
	if c.Place == 0 {
		files["top.db"] = "zero.example.org. 600 IN A 192.0.2.0\n" + cut
	} else {
		files["top.db"] = "zero.example.org. 600 IN A 192.0.2.0\n$INCLUDE cut.db\nnext.example.org. 600 IN A 192.0.2.1\n"
		files["cut.db"] = "i.example.org. 600 IN A 192.0.2.9\n" + cut
		want = 2
	}
	out, viol := runParser(files, parserCfg{File: "top.db", Origin: "example.org.", HasDefTTL: true, DefTTL: 5, Allowed: true, UseFS: true}, nil)
	if viol != nil {
		return pbt.Errf("%s\n%q", strings.SplitN(viol.Error(), "\n", 2)[0], cut)
	}
	if out.Err == nil {
		return pbt.Errf("the last line of %s is %q and the input ends there: the line is neither a record nor a complete directive, no error is reported and it is dropped (%d records returned)",
			[]string{"the input", "an included file"}[c.Place], cut, out.N)
	}
	if out.N != want {
		return pbt.Errf("%d records returned before the error %v, want %d\n%q", out.N, out.Err, want, cut)
	}
	return nil
}

func checkCut(c cutCase) error {
	pbt.Note([]byte(fmt.Sprint(c)), true, "cut:"+strings.Join(strings.Fields(cutLines[min(max(c.Line, 0), len(cutLines)-1)]), "+"), fmt.Sprintf("cut:place=%d", c.Place))
	return evalCut(c)
}

// ---------------------------------------------------------------------------------------------

// badGenerated: $GENERATE lines whose template is well-formed and whose generated lines are not;
// good = the steps that yield records before the malformed one. (fault-localisation: the error
// must name the line of the directive.)
var badGenerated = map[string]int{
	"$GENERATE 1-2 h$.example. 300 IN A not-an-address":      0,
	"$GENERATE 7-9 h$.example. 300 IN MX x$ mail.example.":   0,
	"$GENERATE 254-300 h$.example. 300 IN A 10.0.0.${2,0,d}": 0,
	"$GENERATE 254-300 h$.example. 300 IN A 10.0.0.$":        2,
	"$GENERATE 0-9 h$.example. 300 IN A 10.0.0.${250}":       6,
	"$GENERATE 1-3 $.example. 300 IN TXT a ) b":              0,
}

func init() {
	for l := range badGenerated {
		badLines = append(badLines, l)
	}
	// keep the order of the table fixed (it is indexed by generated integers)
	n := len(badLines) - len(badGenerated)
	tail := badLines[n:]
	for i := range tail {
		for j := i + 1; j < len(tail); j++ {
			if tail[j] < tail[i] {
				tail[i], tail[j] = tail[j], tail[i]
			}
		}
	}

	c07Probe(kParenComments, func() error {
		// the breaker's shape at a quarter of its size: 10 000 comment lines (40 KB)
		text := "a. TXT ( ; cc\n" + strings.Repeat("; c\n", 10000) + " x )\n"
		out, viol := runParser(map[string]string{"f.db": text}, parserCfg{File: "f.db", Origin: "example.", HasDefTTL: true, DefTTL: 5}, nil)
		if viol != nil {
			return fmt.Errorf("%s", strings.SplitN(viol.Error(), "\n", 2)[0])
		}
		if out.Err != nil || out.N != 1 {
			return fmt.Errorf("harness: the probe's input no longer parses: %d records, %v", out.N, out.Err)
		}
		return nil
	})
	c07Probe(kEOFBlank, func() error {
		for _, text := range []string{"a. 3600 IN ", "a. ", "$TTL ", "x. 5 IN A 1.2.3.4\nb. 3600 ", "x. 5 IN A 1.2.3.4\nb. 3600"} {
			out, viol := runParser(map[string]string{"f.db": text}, parserCfg{File: "f.db", Origin: "example."}, nil)
			if viol != nil {
				return fmt.Errorf("%s", strings.SplitN(viol.Error(), "\n", 2)[0])
			}
			if out.Err == nil {
				return fmt.Errorf("%q: no error, %d records - the unfinished last line is dropped silently", text, out.N)
			}
		}
		return nil
	})
	c07Probe(kGenLine, func() error {
		text := "a A 1.2.3.4\n\n$GENERATE 1-300 h$ A 1.2.3.$\n"
		out, viol := runParser(map[string]string{"f.db": text}, parserCfg{File: "f.db", Origin: "example.", HasDefTTL: true, DefTTL: 5}, nil)
		if viol != nil {
			return fmt.Errorf("%s", strings.SplitN(viol.Error(), "\n", 2)[0])
		}
		if l := errLine(out.Err); l != 3 {
			return fmt.Errorf("the $GENERATE on line 3 fails at its step 256 and the error says line %d: %v", l, out.Err)
		}
		return nil
	})
}
