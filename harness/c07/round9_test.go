package c07

import (
	"fmt"
	"os"
	"sort"
	"strings"
	"testing"

	"verif/harness/pbt"
)

// Round 9: the RDATA of every sample type with one token written twice / left out / exchanged with
// its neighbour, with a line break (no parentheses) in front of every token, and with the tail of
// another record behind it on the same line.
//
// Why: the mutations of `mutated` (dup-token, delete-token) pick one token of a whole zone, so a
// given (type, field) place is met by luck (C07-Q: a type repeated in the type list of NSEC / NSEC3
// / CSYNC makes the parser spin; seed 1 met it after 23 s). These tables have every place once.

// kCrossLine: the parsers of the types skip the token behind a field with a blind c.Next(); when
// that token is the end of the line, the record silently continues on the next line.
const kCrossLine = "rdata-crosses-line"

var round9Faults = []string{"token-dup", "token-drop", "token-swap", "split-line", "record-tail"}

func isRound9Fault(f string) bool {
	for _, k := range round9Faults {
		if k == f {
			return true
		}
	}
	return false
}

func flipCase(s string) string {
	b := []byte(s)
	for i, c := range b {
		switch {
		case c >= 'a' && c <= 'z':
			b[i] = c - 32
		case c >= 'A' && c <= 'Z':
			b[i] = c + 32
		}
	}
	return string(b)
}

// recordTail: what would be a complete entry if it stood on a line of its own behind a blank (owner
// left out).
const recordTail = "600 IN A 192.0.2.9"

// round9Text is the text of a case and the number of its lines that are entries by themselves
// (split-line: 4 physical lines; the others: 3).
func round9Text(c typeFaultCase) (string, int, bool) {
	s, ok := lookupSample(c.Sample)
	if !ok || c.Tok < 0 || c.Tok >= len(s.Toks) || c.Var < 0 || c.Var > 1 {
		return "", 0, false
	}
	toks := append([]string(nil), s.Toks...)
	switch c.Fault {
	case "token-dup":
		second := toks[c.Tok]
		if c.Var == 1 {
			if second = flipCase(second); second == toks[c.Tok] {
				return "", 0, false
			}
		}
		toks = append(toks[:c.Tok+1], append([]string{second}, toks[c.Tok+1:]...)...)
	case "token-drop":
		if c.Var != 0 {
			return "", 0, false
		}
		toks = append(toks[:c.Tok], toks[c.Tok+1:]...)
	case "token-swap":
		if c.Var != 0 || c.Tok+1 >= len(toks) || toks[c.Tok] == toks[c.Tok+1] {
			return "", 0, false
		}
		toks[c.Tok], toks[c.Tok+1] = toks[c.Tok+1], toks[c.Tok]
	case "split-line":
		if c.Tok < 1 || c.Tail != 0 {
			return "", 0, false
		}
		second := strings.Join(toks[c.Tok:], " ")
		if c.Var == 1 {
			second = " " + second
		}
		return "first.example.org. 300 IN " + s.Type + " " + strings.Join(toks[:c.Tok], " ") + "\n" + second +
			"\nnext.example.org. 600 IN A 192.0.2.1\nlast.example.org. 600 IN A 192.0.2.2\n", 4, true
	case "record-tail":
		if c.Tok != 0 || c.Var != 0 || c.Tail != 0 {
			return "", 0, false
		}
		toks = append(toks, recordTail)
	default:
		return "", 0, false
	}
	return lineWith(s, toks, c.Tail), 3, true
}

// crossesOnPinnedTree delimits the class of kCrossLine in the split-line table: the (sample,
// token, variant) places where the pinned tree reads on into the next line without an error (found
// by running the table with the finding unlisted: C07_LIST_CROSS=1 go test -run TestListCrossLine).
var crossesOnPinnedTree = map[string]bool{}

func crossKey(c typeFaultCase) string { return fmt.Sprintf("%s/%d/%d", c.Sample, c.Tok, c.Var) }

func eachRound9TypeFault(emit func(typeFaultCase)) {
	for _, name := range allSampleNames() {
		s, _ := lookupSample(name)
		for ti := range s.Toks {
			for _, f := range []string{"token-dup", "token-drop", "token-swap"} {
				for v := 0; v < 2; v++ {
					for _, tail := range []int{0, 2} {
						c := typeFaultCase{Sample: name, Fault: f, Tok: ti, Var: v, Tail: tail}
						if _, _, ok := round9Text(c); ok {
							emit(c)
						}
					}
				}
			}
			for v := 0; v < 2; v++ {
				c := typeFaultCase{Sample: name, Fault: "split-line", Tok: ti, Var: v}
				if _, _, ok := round9Text(c); !ok {
					continue
				}
				if pbt.Known(kCrossLine) && crossesOnPinnedTree[crossKey(c)] {
					pbt.Excluded(kCrossLine)
					continue
				}
				emit(c)
			}
		}
		emit(typeFaultCase{Sample: name, Fault: "record-tail"})
	}
}

// lineCountOracle: the safety oracle, and when no error is reported every one of the `lines`
// entry lines of the text has yielded its own record. Outside parentheses a line break ends the
// entry (RFC 1035 5.1), so an entry that lacks fields is a problem of its line and has to be
// reported; fewer records than lines without an error means that a line has vanished into the
// record of another one, more records that one line was read as two entries.
func lineCountOracle(text string, lines int) error {
	out, viol := runParser(map[string]string{"f.db": text}, parserCfg{File: "f.db", Origin: "example.org."}, nil)
	if viol != nil {
		return pbt.Errf("%v\n%q", viol, text)
	}
	if out.Err != nil || out.N == lines {
		return nil
	}
	if out.N < lines {
		return pbt.Errf("no error is reported and the %d lines of the text yield %d records: an entry was continued over a line break outside parentheses (%v)\n%q", lines, out.N, out.First, text)
	}
	return pbt.Errf("no error is reported and the %d lines of the text yield %d records: one line was read as two entries (%v)\n%q", lines, out.N, out.First, text)
}

func checkRound9TypeFault(c typeFaultCase) (error, bool) {
	if !isRound9Fault(c.Fault) {
		return nil, false
	}
	text, lines, ok := round9Text(c)
	if !ok {
		pbt.Note(nil, false, "invalid-case")
		return nil, true
	}
	pbt.Note([]byte(fmt.Sprintf("%s/%s/%d/%d/%d", c.Sample, c.Fault, c.Tok, c.Var, c.Tail)), true, "type-fault:"+c.Sample, "fault:"+c.Fault, fmt.Sprintf("type-fault:tail=%d", c.Tail))
	switch c.Fault {
	case "split-line", "record-tail":
		return lineCountOracle(text, lines), true
	}
	return evalTypeFault(c, text), true
}

func init() {
	extraSamples["TKEY"] = faultSample{"TKEY", []string{"hmac-sha256.example.", "3", "abc", "2", "de"}}
	extraSampleNames = append(extraSampleNames, "TKEY")

	for _, k := range strings.Fields(crossTable) {
		crossesOnPinnedTree[k] = true
	}

	c07Probe(kCrossLine, func() error {
		for _, text := range []string{"a. 300 IN MX 10\nb.\n", "a. 300 IN SRV 1 2\n3 b.\n", "a. 300 IN RP x.\ny.\n", "a. 300 IN SOA ns. mbox. 1 2\n3 4 5\n"} {
			if err := lineCountOracle(text, 2); err != nil {
				return fmt.Errorf("%s", strings.SplitN(err.Error(), "\n", 2)[0]+" "+fmt.Sprintf("%q", text))
			}
		}
		return nil
	})
}

// All sub-checks are registered here (this file's init runs last), the fixed tables first: they
// are deterministic and take seconds, so a regression that a table covers is reported before the
// generated runs have started (C07-R: 122 s behind `mutated`, which used to be first).
func init() {
	pbt.RegisterEnum(pbt.Enum[gateCase]{Name: "gate-table", Exhaustive: true, Each: eachGate, Check: noShrink(checkGate)})
	pbt.RegisterEnum(pbt.Enum[tplCase]{Name: "generate-template-table", Exhaustive: true, Each: eachTpl, Check: noShrink(checkTpl)})
	pbt.RegisterEnum(pbt.Enum[cutCase]{Name: "breaks-off-at-eof", Exhaustive: true, Each: eachCut, Check: noShrink(checkCut)})
	pbt.RegisterEnum(pbt.Enum[fillerCase]{Name: "paren-filler-table", Exhaustive: true, Each: eachFiller, Check: noShrink(checkFiller)})
	pbt.RegisterEnum(pbt.Enum[readTableCase]{Name: "read-fault-table", Exhaustive: true, Each: eachReadTable, Check: noShrink(checkReadTable)})
	// replay targets for inputs found by the native fuzz targets (no generated cases of their own:
	// the rapid counterpart of FuzzZoneParser is "mutated")
	pbt.RegisterEnum(pbt.Enum[hostileCase]{Name: "fuzz-zone", Each: func(emit func(hostileCase)) {
		emit(fuzzCase([]byte("$GENERATE 1-3 a$ A 10.0.0.$\n$INCLUDE self.db\n"), 0))
	}, Check: noShrink(checkHostile)})
	pbt.RegisterEnum(pbt.Enum[newRRCase]{Name: "fuzz-newrr", Each: func(emit func(newRRCase)) {
		for _, s := range []string{"example.org. 3600 IN MX 10 mail.example.org.", "$GENERATE 0-65535 a$ A 1.2.3.4", "a 5 IN TXT \"x", "a 5 IN A (", "\\"} {
			emit(newRRCase{Text: s})
		}
	}, Check: noShrink(func(c newRRCase) error {
		pbt.Note([]byte(c.Text), true, "newrr")
		return checkNewRR(c)
	})})
	pbt.RegisterEnum(pbt.Enum[typeFaultCase]{Name: "type-fault", Exhaustive: true, Each: eachTypeFault, Check: noShrink(checkTypeFault)})
	pbt.RegisterEnum(pbt.Enum[dirFaultCase]{Name: "directive-fault", Exhaustive: true, Each: eachDirFault, Check: noShrink(checkDirFault)})
	pbt.Register(pbt.Sub[gateCase]{Name: "gate", Weight: 0.2, Gen: genGate, Check: noShrink(checkGate)})
	pbt.Register(pbt.Sub[tplCase]{Name: "generate-template", Weight: 0.2, Gen: genTpl, Check: noShrink(checkTpl)})
	pbt.Register(pbt.Sub[fillerCase]{Name: "paren-filler", Weight: 0.03, Gen: genFiller, Check: noShrink(checkFiller)})
	pbt.Register(pbt.Sub[faultCase]{Name: "fault-localisation", Weight: 5, Gen: genFault, Check: noShrink(checkFault)})
	pbt.Register(pbt.Sub[readFaultCase]{Name: "read-fault", Weight: 4, Gen: genReadFault, Check: noShrink(checkReadFault)})
	pbt.Register(pbt.Sub[hostileCase]{Name: "mutated", Weight: 10, Gen: genHostile, Check: noShrink(checkHostile)})
}

// crossTable: see crossesOnPinnedTree.
const crossTable = `
AFSDB/1/0 AMTRELAY/1/0 AMTRELAY/2/0 AMTRELAY/3/0 CAA/2/0 CAA/2/1 CDNSKEY/1/0 CDNSKEY/2/0 CDS/1/0 CDS/2/0 CERT/1/0 CERT/2/0 DLV/1/0 DLV/2/0 DNSKEY/1/0
DNSKEY/2/0 DS/1/0 DS/2/0 GPOS/1/0 GPOS/2/0 HIP/1/0 HIP/2/0 HTTPS-params/1/0 HTTPS/1/0 IPSECKEY/1/0 IPSECKEY/2/0 IPSECKEY/3/0 IPSECKEY/4/0 IPSECKEY/4/1
KEY/1/0 KEY/2/0 KX/1/0 L32/1/0 L64/1/0 LOC/1/0 LOC/2/0 LOC/3/0 LOC/4/0 LOC/5/0 LOC/6/0 LOC/7/0 LOC/8/0 LP/1/0 MINFO/1/0 MX/1/0 NAPTR/1/0 NAPTR/2/0
NAPTR/3/0 NAPTR/4/0 NAPTR/5/0 NID/1/0 NSEC3PARAM/1/0 NSEC3PARAM/2/0 NSEC3PARAM/3/0 PX/1/0 PX/2/0 RKEY/1/0 RKEY/2/0 RP/1/0 RRSIG/1/0 RRSIG/2/0
RRSIG/3/0 RRSIG/4/0 RRSIG/5/0 RRSIG/6/0 RRSIG/7/0 RRSIG/7/1 RT/1/0 SIG/1/0 SIG/2/0 SIG/3/0 SIG/4/0 SIG/5/0 SIG/6/0 SIG/7/0 SIG/7/1 SMIMEA/1/0
SMIMEA/2/0 SOA/1/0 SOA/2/0 SOA/3/0 SOA/4/0 SOA/5/0 SOA/6/0 SRV/1/0 SRV/2/0 SRV/3/0 SSHFP/1/0 SSHFP/2/0 SSHFP/2/1 SVCB/1/0 TA/1/0 TA/2/0 TALINK/1/0
TKEY/1/0 TKEY/3/0 TKEY/4/0 TLSA/1/0 TLSA/2/0 URI/1/0 URI/2/0 URI/2/1 ZONEMD/1/0 ZONEMD/2/0
`

// TestListCrossLine prints the places of the split-line table that fail (maintenance of
// crossTable; runs only when asked for).
func TestListCrossLine(t *testing.T) {
	if os.Getenv("C07_LIST_CROSS") == "" {
		t.Skip("set C07_LIST_CROSS=1")
	}
	var keys []string
	for _, name := range allSampleNames() {
		s, _ := lookupSample(name)
		for ti := range s.Toks {
			for v := 0; v < 2; v++ {
				c := typeFaultCase{Sample: name, Fault: "split-line", Tok: ti, Var: v}
				text, lines, ok := round9Text(c)
				if !ok {
					continue
				}
				if err := lineCountOracle(text, lines); err != nil {
					keys = append(keys, crossKey(c))
					t.Logf("%s: %s", crossKey(c), strings.SplitN(err.Error(), "\n", 2)[0])
				}
			}
		}
	}
	sort.Strings(keys)
	fmt.Println("CROSS-TABLE:", strings.Join(keys, " "))
}
