package c07

// Round 10.
//
// C07-S (missed): a look-ahead at the start of the input (bufio.Reader.Peek, error ignored) takes
// a pending read error off the bufio.Reader; the error is lost when the reader does not fail again.
// The readers of `read-fault` failed for good once they had failed, so the second Read repeated the
// error and nothing showed. The statement ("reports the first problem as an error ... returns no
// further records once an error has occurred") does not depend on the reader failing twice: a
// failed read is the first problem whatever the reader does afterwards. New here:
//
//   - the delivery of a failure is part of the case: the reader fails for good or once (it goes on
//     with the text behind the failure, as a descriptor does after EAGAIN or a timeout), a Read call
//     delivers at most 1, 2, 3, 7, 16, 100 octets or as many as fit, the failing call delivers 0, 1,
//     2, 3 or all pending octets together with its error, and the top-level reader is a plain
//     io.Reader, an io.ByteReader, or a *bufio.Reader (16, 64, 4096 octets) handed in by the caller;
//     `read-fault` draws all of it and places a quarter of its failures in the first four octets;
//   - `read-fault-table`: a fixed zone of six lines and an include file, the failure at every
//     offset of either file (0, 1, 2 among them) x {for good, once} x every reader kind x chunk
//     {as many as fit, 1, 3} x octets with the error {0, 1, 2}; the expected records are written
//     down here by hand.
//
// The oracle is the one of `read-fault`: Err() is the injected error, nothing that comes from a
// line whose end was delivered behind the failure is returned, what is returned is a prefix of the
// fault-free records.

import (
	"fmt"
	"strings"

	"github.com/miekg/dns"
	"pgregory.net/rapid"

	"verif/harness/pbt"
)

// genDelivery draws how the failure of a read-fault case is delivered, and moves a quarter of the
// failures to the very start of the file (the first Read of a file is where a look-ahead, a byte
// order mark or an encoding sniffer would sit).
func genDelivery(t *rapid.T, c *readFaultCase, n int) {
	if rapid.IntRange(0, 3).Draw(t, "early") == 0 {
		c.At = rapid.IntRange(0, min(3, n)).Draw(t, "earlyAt")
	}
	c.Once = rapid.Bool().Draw(t, "once")
	c.Chunk = rapid.SampledFrom([]int{0, 0, 0, 1, 2, 3, 7, 16, 100}).Draw(t, "chunk")
	c.With = rapid.SampledFrom([]int{0, 0, 0, 1, 2, 3, 1 << 20}).Draw(t, "with")
	if !c.ByteReader && c.File == c.Zone.FileName {
		c.Bufio = rapid.SampledFrom([]int{0, 0, 16, 64, 4096}).Draw(t, "bufio")
	}
}

func readerKind(cfg parserCfg) string {
	switch {
	case cfg.FaultFile != cfg.File:
		return "include-file"
	case cfg.ByteReader:
		return "byte-reader"
	case cfg.Bufio > 0:
		return "caller-bufio"
	}
	return "plain-reader"
}

func deliveryClasses(cfg parserCfg) []string {
	at := "fault-at:>=3"
	if cfg.FaultAt < 3 {
		at = fmt.Sprintf("fault-at:%d", cfg.FaultAt)
	}
	chunk := "read-chunk:whole"
	switch {
	case cfg.FaultChunk > 0 && cfg.FaultChunk < 3:
		chunk = "read-chunk:1-2"
	case cfg.FaultChunk >= 3:
		chunk = "read-chunk:>=3"
	}
	with := cfg.FaultWith > 0 && cfg.FaultAt > 0 && !cfg.ByteReader
	return []string{at, chunk, "reader:" + readerKind(cfg), fmt.Sprintf("fails-once=%v", cfg.FaultOnce), fmt.Sprintf("error-with-data=%v", with),
		fmt.Sprintf("fails-once=%v/%s", cfg.FaultOnce, at)}
}

func deliveryText(cfg parserCfg) string {
	how := "the reader keeps failing"
	if cfg.FaultOnce {
		how = "the reader fails once and goes on with the text"
	}
	return fmt.Sprintf("%s, %s, at most %d octets per Read (0 = as many as fit), up to %d octets together with the error", readerKind(cfg), how, cfg.FaultChunk, cfg.FaultWith)
}

// ---------------------------------------------------------------------------------------------
// read-fault-table

const (
	rfTop = "$TTL 300\n" +
		"a0 IN A 192.0.2.1\n" +
		"$INCLUDE inc.db\n" +
		"a1 IN A 192.0.2.2 ; comment\n" +
		"a2 IN TXT ( \"x\"\n  \"y\" )\n" +
		"a3 IN A 192.0.2.3" // no newline: complete only when the input ends
	rfInc = "b0 IN A 192.0.2.10\n" +
		"b1 300 IN MX 10 b0\n"
)

// the records of the fault-free zone, in order; rfTopAfter[k] = number of records that are complete
// when the newline that ends physical line k+1 of the top-level file has been delivered
var (
	rfOwners   = []string{"a0.example.org.", "b0.example.org.", "b1.example.org.", "a1.example.org.", "a2.example.org.", "a3.example.org."}
	rfTopAfter = []int{0, 1, 3, 4, 4, 5}
	rfIncAfter = []int{2, 3} // (a0 is there before the file is opened)
)

type readTableCase struct {
	File  string // "z.db" or "inc.db"
	At    int
	Kind  int
	Once  bool
	Chunk int
	With  int
	Wrap  int // 0 plain io.Reader, 1 io.ByteReader, 2 *bufio.Reader of 16 octets (top-level file only)
}

func eachReadTable(emit func(readTableCase)) {
	// (the failures at the start of the files first: the cheapest to look at in a report)
	for _, early := range []bool{true, false} {
		for _, f := range []string{"z.db", "inc.db"} {
			n := len(rfTop)
			if f == "inc.db" {
				n = len(rfInc)
			}
			for at := 0; at <= n; at++ {
				if (at < 3) != early {
					continue
				}
				k := 0
				for _, once := range []bool{true, false} {
					for wrap := 0; wrap < 3; wrap++ {
						if f == "inc.db" && wrap != 0 {
							continue // the library opens the file and wraps it itself
						}
						for _, chunk := range []int{0, 1, 3} {
							for _, with := range []int{0, 1, 2} {
								if wrap == 1 && (chunk != 0 || with != 0) {
									continue // ReadByte: one octet per call, the error alone
								}
								if with > at {
									continue
								}
								// the kinds of error take turns (all seven show at every offset)
								emit(readTableCase{File: f, At: at, Kind: (at + k) % len(faultKindNames), Once: once, Chunk: chunk, With: with, Wrap: wrap})
								k++
							}
						}
					}
				}
			}
		}
	}
}

func checkReadTable(c readTableCase) error {
	files := map[string]string{"z.db": rfTop, "inc.db": rfInc}
	txt, after := rfTop, rfTopAfter
	if c.File == "inc.db" {
		txt, after = rfInc, rfIncAfter
	}
	if (c.File != "z.db" && c.File != "inc.db") || c.At < 0 || c.At > len(txt) || c.Kind < 0 || c.Kind >= len(faultKindNames) {
		pbt.Note(nil, false, "invalid-case")
		return nil
	}
	// records of the lines whose newline was delivered in front of the failure
	upper := 0
	if c.File == "inc.db" {
		upper = 1
	}
	line := 0
	for i := 0; i < c.At; i++ {
		if txt[i] == '\n' {
			upper = after[line]
			line++
		}
	}
	cfg := parserCfg{File: "z.db", Origin: "example.org.", Allowed: true, UseFS: true,
		FaultFile: c.File, FaultAt: c.At, FaultKind: c.Kind, FaultOnce: c.Once, FaultChunk: c.Chunk, FaultWith: c.With, ByteReader: c.Wrap == 1}
	if c.Wrap == 2 {
		cfg.Bufio = 16
	}
	out, viol := runParser(files, cfg, nil)
	pbt.Note(caseKey(nil, cfg), true, append(deliveryClasses(cfg), "fault-kind:"+faultKindNames[c.Kind], fmt.Sprintf("records-before=%d", upper))...)
	ctx := func() string {
		return fmt.Sprintf("reading %s fails after %d of %d octets with %q (%s; %s); at most %d records come from lines that were delivered completely before the failure\n%s",
			c.File, c.At, len(txt), faultErr(c.Kind), faultKindNames[c.Kind], deliveryText(cfg), upper, show(files, cfg))
	}
	if viol != nil {
		return pbt.Errf("%v\n%s", viol, ctx())
	}
	if out.Err == nil {
		return pbt.Errf("the reader failed but Err() == nil (%d records returned: %s)\n%s", out.N, owners(out.First), ctx())
	}
	if out.N > upper {
		return pbt.Errf("%d records returned (%s) after a read failure in front of which only %d were complete (error %v)\n%s", out.N, owners(out.First), upper, out.Err, ctx())
	}
	for i, rr := range out.First {
		if rr.Header().Name != rfOwners[i] {
			return pbt.Errf("record %d is %q, the fault-free zone has %s there\n%s", i, rr.String(), rfOwners[i], ctx())
		}
	}
	return nil
}

func owners(rrs []dns.RR) string {
	var o []string
	for _, rr := range rrs {
		o = append(o, rr.Header().Name)
	}
	return strings.Join(o, " ")
}

// ---------------------------------------------------------------------------------------------
// Remark of the C06 builder (round 10): a TTL made of unit letters without a number is read as 0.
//
// stringToTTL adds i x factor for every unit letter and never asks whether a digit came before it,
// so "S", "hm", "w" and the empty string are TTLs of 0 seconds: `a S IN A 10.0.0.1`, `$TTL s` and
// SOA timers like `H` are accepted. RFC 1035 5.1: a TTL is a decimal integer (BIND's unit suffixes
// follow a number); such a token is neither TTL, class nor type, so the line has a problem and
// none is reported - the same clause as ttl-overflow-wraps (round 4) and `$TTL not-a-ttl`.

const kTTLUnits = "ttl-unit-without-digits"

var unitOnlyLines = []string{
	"bad.example. S IN A 10.0.0.1",
	"bad.example. hm IN A 10.0.0.1",
	"bad.example. IN w A 10.0.0.1",
	"bad.example. 300 IN SOA ns.example. mbox.example. 1 H 3 4 5",
	"bad.example. 300 IN SOA ns.example. mbox.example. 1 2 3 4 d",
	"$TTL s",
	"$TTL Wd",
}

func unitOnlyTTL(line string) bool {
	for _, l := range unitOnlyLines {
		if l == line {
			return true
		}
	}
	return false
}

func init() {
	badLines = append(badLines, unitOnlyLines...)
	c07Probe(kTTLUnits, func() error {
		for _, line := range []string{"a S IN A 10.0.0.1\n", "a hm A 10.0.0.1\n", "$TTL s\na IN A 10.0.0.1\n", "a 300 IN SOA ns. mbox. 1 H 3 4 5\n"} {
			out, viol := runParser(map[string]string{"t.db": line}, parserCfg{File: "t.db", Origin: "example."}, nil)
			if viol != nil {
				return fmt.Errorf("%s", strings.SplitN(viol.Error(), "\n", 2)[0])
			}
			if out.Err == nil {
				return fmt.Errorf("%q is accepted: %v", line, out.First)
			}
		}
		return nil
	})
}
