package c07

import (
	"fmt"
	"os"
	"path/filepath"
	"regexp"
	"sort"
	"strings"

	"github.com/miekg/dns"
	"pgregory.net/rapid"

	"verif/harness/pbt"
	zm "verif/harness/zonemodel"
)

// ---------------------------------------------------------------------------------------------
// hostile text: a rendered valid zone + mutations

type hostileCase struct {
	Files     map[string]string
	Cfg       parserCfg
	Mutations []string // what was done (for the reader of a replay file)
}

func caseKey(files map[string]string, cfg parserCfg) []byte {
	names := make([]string, 0, len(files))
	for n := range files {
		names = append(names, n)
	}
	sort.Strings(names)
	var sb strings.Builder
	fmt.Fprintf(&sb, "%+v", cfg)
	for _, n := range names {
		sb.WriteString(n)
		sb.WriteByte(0)
		sb.WriteString(files[n])
		sb.WriteByte(0)
	}
	return []byte(sb.String())
}

func hasDirective(s string) bool {
	u := normLex(s)
	return strings.Contains(u, "$GENERATE") || strings.Contains(u, "$INCLUDE") || strings.Contains(u, "$ORIGIN") || strings.Contains(u, "$TTL")
}

func show(files map[string]string, cfg parserCfg) string {
	var sb strings.Builder
	fmt.Fprintf(&sb, "cfg=%+v\n", cfg)
	names := make([]string, 0, len(files))
	for n := range files {
		names = append(names, n)
	}
	sort.Strings(names)
	for _, n := range names {
		t := files[n]
		if len(t) > 1500 {
			t = t[:700] + "…(" + fmt.Sprint(len(t)) + " octets)…" + t[len(t)-700:]
		}
		fmt.Fprintf(&sb, "--- %s ---\n%q\n", n, t)
	}
	return sb.String()
}

// Known finding of this property.
const kGenErrRecord = "generate-error-record"

var (
	safeModRe = regexp.MustCompile(`^\d{1,5}(,\d{1,2}(,[doxX])?)?$`) // applied to stripLex text
	longNumRe = regexp.MustCompile(`\d{10}`)
)

// riskyModifier delimits the input class of the known finding generate-error-record: a file that
// has a $GENERATE and a "${" whose modifier is not certain to be accepted when the expansion is
// read (anything but ${offset[,width[,base]]} with a small non-negative offset, width < 100, base
// d/o/x/X, and no number of ten or more digits anywhere in the file). Over-approximation.
func riskyModifier(files map[string]string) bool {
	for _, raw := range files {
		txt := stripLex(raw)
		g := strings.Index(asciiUpper(txt), "$GENERATE")
		if g < 0 {
			continue
		}
		// a $GENERATE can span physical lines (parentheses, quotes): once one is seen, the rest
		// of the file is scanned
		rest := txt[g:]
		if strings.Contains(rest, "${") && longNumRe.MatchString(rest) {
			return true
		}
		for {
			i := strings.Index(rest, "${")
			if i < 0 {
				break
			}
			rest = rest[i+2:]
			j := strings.IndexByte(rest, '}')
			if j < 0 || !safeModRe.MatchString(rest[:j]) {
				return true
			}
		}
	}
	return false
}

// kGenEOF: a $GENERATE directive that ends right after its range at the end of the input is
// reported at position 0:0.
const kGenEOF = "generate-eof-position"

var genEOFRe = regexp.MustCompile(`\$GENERATE[ \t]+[^ \t\n;"]+$`) // applied to normLex text

func endsInBareGenerate(files map[string]string) bool {
	for _, txt := range files {
		if genEOFRe.MatchString(normLex(txt)) {
			return true
		}
	}
	return false
}

// kRecursion: ZoneParser.subNext calls Next again when a sub-parser ends, so every $GENERATE or
// $INCLUDE line that yields no record adds stack frames that are held until a record is found.
const kRecursion = "directive-run-recursion"

// inProbe: probes run while pbt evaluates the known findings, so they must not ask pbt.Known
// themselves; they use the flat depth limit.
var inProbe bool

func init() {
	depthRelaxed = func() bool { return !inProbe && pbt.Known(kRecursion) }
	genLineRelaxed = func() bool { return !inProbe && pbt.Known(kGenLine) }
}

func c07Probe(id string, run func() error) {
	pbt.Probe(id, func() error {
		inProbe = true
		defer func() { inProbe = false }()
		return run()
	})
}

// kTTLWrap: stringToTTL does its sums in 64 bits without an overflow check.
const kTTLWrap = "ttl-overflow-wraps"

// wrapsTTL: the line has a TTL whose value in seconds is 2^64 or more.
func wrapsTTL(line string) bool {
	for _, f := range strings.Fields(line) {
		if len(f) >= 15 && f[0] >= '0' && f[0] <= '9' && (len(f) >= 20 || strings.ContainsAny(f, "wWdDhHmM")) {
			return true
		}
	}
	return false
}

// kGenQuadratic: the text of a $GENERATE logical line is collected with s += token, which costs
// time and allocation quadratic in the number of tokens.
const kGenQuadratic = "generate-quadratic"

const maxGenerateProduct = 1000000

// longGenerate delimits the class: behind a $GENERATE the same file has so much text that
// (tokens) x (octets) exceeds 10^6 (an unbalanced parenthesis or quote can make the rest of the
// file one logical line; the concatenation copies the text so far once per token).
func longGenerate(files map[string]string) bool {
	for _, raw := range files {
		if cutLongGenerate(raw) != raw {
			return true
		}
	}
	return false
}

// cutLongGenerate truncates the text where that product is reached.
func cutLongGenerate(raw string) string {
	g := strings.Index(asciiUpper(raw), "$GENERATE")
	if g < 0 {
		// parentheses and carriage returns inside the keyword are dropped by the lexer
		if !strings.Contains(normLex(raw), "$GENERATE") {
			return raw
		}
		g = strings.IndexByte(raw, '$')
	}
	n, in := 0, false
	for i := g; i < len(raw); i++ {
		sp := raw[i] == ' ' || raw[i] == '\t' || raw[i] == '\n'
		if !sp && !in {
			n++
			if n*(i-g) > maxGenerateProduct {
				return raw[:i]
			}
		}
		in = !sp
	}
	return raw
}

// neutralise rewrites the files so that they are outside the class of riskyModifier.
func neutralise(files map[string]string) {
	for k, txt := range files {
		if strings.Contains(normLex(txt), "$GENERATE") {
			files[k] = strings.ReplaceAll(txt, "{", " {")
		}
	}
}

func checkHostile(c hostileCase) error {
	if c.Cfg.Allowed && !c.Cfg.UseFS {
		pbt.Note(nil, false, "invalid-case")
		return nil
	}
	sanitize(&c)
	out, viol := runParser(c.Files, c.Cfg, exerciseRecord)
	top := c.Files[c.Cfg.File]
	classes := []string{fmt.Sprintf("allowed=%v", c.Cfg.Allowed), fmt.Sprintf("fs=%v", c.Cfg.UseFS)}
	if out.Err != nil {
		classes = append(classes, "ends-in-error")
		classes = append(classes, "err:"+errClass(out.Err))
	} else {
		classes = append(classes, "ends-clean")
	}
	if out.N > 0 {
		classes = append(classes, "records-before-end")
	}
	classes = append(classes, allocClass(out))
	if len(out.Opens) > 0 {
		classes = append(classes, "fs-opened")
	}
	for _, m := range c.Mutations {
		classes = append(classes, "mut:"+strings.SplitN(m, " ", 2)[0])
	}
	switch n := len(top); {
	case n > 500000:
		classes = append(classes, "size>500k")
	case n > 10000:
		classes = append(classes, "size>10k")
	}
	pbt.Note(caseKey(c.Files, c.Cfg), out.N > 0 || hasDirective(top), classes...)
	if viol != nil {
		return pbt.Errf("%v\nmutations: %q\n%s", viol, c.Mutations, show(c.Files, c.Cfg))
	}
	return nil
}

// errClass is the error message without file, token and position.
func errClass(err error) string {
	s := err.Error()
	if i := strings.Index(s, "dns: "); i >= 0 {
		s = s[i+5:]
	}
	if i := strings.Index(s, ": \""); i >= 0 {
		s = s[:i]
	}
	if len(s) > 40 {
		s = s[:40]
	}
	return s
}

// exerciseRecord runs the usual consumers over a returned record (a returned record must be safe
// to use): String, Len, PackRR, Copy.
func exerciseRecord(rr dns.RR) {
	_ = rr.String()
	n := dns.Len(rr)
	buf := make([]byte, n+16)
	_, _ = dns.PackRR(rr, buf, 0, nil, false)
	_ = dns.Copy(rr)
}

// ---------------------------------------------------------------------------------------------
// generator

func knownAll() (zm.GenOpts, zm.RenderOpts) {
	// C07 asserts safety only, so the classes excluded for C06's findings are not excluded here
	return zm.GenOpts{MaxItems: 10, HostileLabels: true, NoNegativeOffset: true}, zm.RenderOpts{}
}

var hostileTokens = []string{"(", ")", "\"", ";", "\\", "@", "$TTL", "$ORIGIN", "$INCLUDE", "$GENERATE", "$TTL 1x", "$ORIGIN ..", "$INCLUDE inc1", "$INCLUDE self.db",
	"$INCLUDE missing.db", "$INCLUDE cycle-a.db", "$GENERATE 1-3 a$ A 10.0.0.$", "$GENERATE 1-2 $$GENERATE 1-2 a$ A 10.0.0.$", "$GENERATE 1-2 x${0,300,d} A 10.0.0.1",
	"$GENERATE 1-2 x${0,3,q} A 10.0.0.1", "$GENERATE 1-2 x${ A 10.0.0.1", "$GENERATE 0-70000 a$ A 10.0.0.1", "$GENERATE 5-1 a$ A 10.0.0.1", "$GENERATE 1-5/0 a$ A 10.0.0.1",
	"$GENERATE -1-5 a$ A 10.0.0.1", "$GENERATE 1-99999999999999999999 a$ A 10.0.0.1", "$GENERATE 1-2/99999999999999999999 a$ A 10.0.0.1",
	"$GENERATE 1-2 a${99999999999999999999} A 10.0.0.1", "$GENERATE 1-2 a${-5} A 10.0.0.1", "$GENERATE 2147483640-2147483647 a${10} A 10.0.0.1", "$GENERATE 0-9223372036854775807/9223372036854775807 a$ A 10.0.0.1",
	"TYPE65536", "TYPE", "CLASS99999", "CLASS", "\\# 4 0102", "\\# 99999", "99999999999999999999", "1h2x", "\\000", "\x00", "\\1", "\\25", "\\256", "\\\n", "IN", "A", "ANY", "NONE",
	"LOC", "LOC 1 N", "LOC 1 2 3 N 4 5 6 E m", "LOC 91 N 1 E 0", "SVCB 1 . key65535=\"", "HTTPS 1 . alpn", "APL 1:", "APL 3:1/2", "NSEC3 1 1 1 - -", "EUI48 00", "TXT", "TXT \"", "CAA 0", "DS 1 1 1",
	"RRSIG A 8 3 1 20240101000000 2024 1 . AA==", "IPSECKEY 1 3 1 . AA==", "AMTRELAY 1 0 4 .", "NID 1 0:0:0", "HIP 2", "CERT 1 1 1", "\r", "\r\n", "\t", "\n\n", " \n", "1.2.3.4", "::1", "300"}

// mutate applies one generated mutation to s.
func mutate(t *rapid.T, s string, big bool) (string, string) {
	// positions are biased towards the end of the text, so that records precede the damage
	pos := func() int {
		return max(rapid.IntRange(0, len(s)).Draw(t, "pos"), rapid.IntRange(0, len(s)).Draw(t, "pos2"))
	}
	switch k := rapid.IntRange(0, 20).Draw(t, "mk"); k {
	case 20: // an escape that is cut short at the end of a token
		tail := rapid.SampledFrom(escapeTails).Draw(t, "etail")
		i := boundary(t, s)
		if rapid.Bool().Draw(t, "inq") && i > 0 && s[i-1] == '"' {
			i-- // inside the closing quote
		}
		return s[:i] + tail + s[i:], fmt.Sprintf("escape-end %q @%d", tail, i)
	case 19: // a $GENERATE line whose template is made of hostile pieces (see gentpl_test.go)
		var c tplCase
		genTplPieces(t, &c)
		if c.steps() > 8 {
			c.Stop = c.Start + 2*c.Step
		}
		line := fmt.Sprintf("$GENERATE %d-%d/%d %s\n", c.Start, c.Stop, c.Step, c.Tpl)
		i := lineStart(t, s)
		return s[:i] + line + s[i:], fmt.Sprintf("generate-template %d octets", len(line))
	case 0: // delete a byte
		if len(s) == 0 {
			return s, "noop"
		}
		i := rapid.IntRange(0, len(s)-1).Draw(t, "i")
		return s[:i] + s[i+1:], fmt.Sprintf("delete-byte @%d", i)
	case 1: // insert a byte
		i := pos()
		b := rapid.SampledFrom([]byte{'(', ')', '"', ';', '\\', '$', '@', 0, '\n', '\r', ' ', '\t', 0xff, '{', '}', ',', '.', '0', 'a'}).Draw(t, "b")
		return s[:i] + string([]byte{b}) + s[i:], fmt.Sprintf("insert-byte %q @%d", b, i)
	case 2: // duplicate a byte
		if len(s) == 0 {
			return s, "noop"
		}
		i := rapid.IntRange(0, len(s)-1).Draw(t, "i")
		return s[:i] + s[i:i+1] + s[i:], fmt.Sprintf("dup-byte @%d", i)
	case 3: // replace a byte
		if len(s) == 0 {
			return s, "noop"
		}
		i := rapid.IntRange(0, len(s)-1).Draw(t, "i")
		return s[:i] + string([]byte{rapid.Byte().Draw(t, "nb")}) + s[i+1:], fmt.Sprintf("set-byte @%d", i)
	case 4, 5: // insert a hostile token at a token boundary
		tok := rapid.SampledFrom(hostileTokens).Draw(t, "tok")
		i := boundary(t, s)
		sep := rapid.SampledFrom([]string{" ", "\n", "", "\t"}).Draw(t, "sep")
		return s[:i] + sep + tok + sep + s[i:], fmt.Sprintf("insert-token %q @%d", tok, i)
	case 6: // delete a token
		f := strings.Fields(s)
		if len(f) == 0 {
			return s, "noop"
		}
		w := f[rapid.IntRange(0, len(f)-1).Draw(t, "w")]
		return strings.Replace(s, w, "", 1), fmt.Sprintf("delete-token %q", w)
	case 7: // duplicate a token
		f := strings.Fields(s)
		if len(f) == 0 {
			return s, "noop"
		}
		w := f[rapid.IntRange(0, len(f)-1).Draw(t, "w")]
		return strings.Replace(s, w, w+" "+w, 1), fmt.Sprintf("dup-token %q", w)
	case 8: // cut the text (unterminated line / quote / parenthesis)
		i := pos()
		return s[:i], fmt.Sprintf("truncate @%d", i)
	case 9: // dangling backslash / open quote / open parenthesis at the end
		tail := rapid.SampledFrom([]string{"\\", "\"", "(", "\"abc", "( a", "\\\n", ";", "\\0", "\\00"}).Draw(t, "tail")
		return s + tail, fmt.Sprintf("dangling %q", tail)
	case 10: // a very long token, comment or quoted string
		n := rapid.IntRange(1000, 20000).Draw(t, "n")
		if big {
			n = rapid.IntRange(10000, 1000000).Draw(t, "nbig")
		}
		i := boundary(t, s)
		var ins string
		kind := rapid.IntRange(0, 7).Draw(t, "lk")
		switch kind {
		case 5: // raw high octets (not UTF-8)
			ins = " " + strings.Repeat(rapid.SampledFrom([]string{"\x80", "\xa9", "\xc3", "\xff", "\x80\xbf"}).Draw(t, "hi"), n) + " "
		case 6:
			ins = " \"ab" + strings.Repeat("\xa9", n) + "\" "
		case 7: // filler lines inside one pair of parentheses
			lines := n / 4
			if pbt.Known(kParenComments) {
				pbt.Excluded(kParenComments)
				lines = min(lines, maxKnownFillerLines)
			}
			ins = " ( ; cc\n" + strings.Repeat(rapid.SampledFrom([]string{"; c\n", " ; cc c\n", "\n", ";\n"}).Draw(t, "fl"), lines) + " ) "
		case 0:
			ins = " " + strings.Repeat("a", n) + " "
		case 1:
			ins = " ;" + strings.Repeat("c", n) + "\n"
		case 2:
			ins = " \"" + strings.Repeat("q", n) + "\" "
		case 3:
			ins = " " + strings.Repeat("\\", n) + " "
		default:
			ins = " ( ;" + strings.Repeat("c", n/2) + "\n ;" + strings.Repeat("d", n/2) + "\n ) "
		}
		return s[:i] + ins + s[i:], fmt.Sprintf("long kind=%d n=%d @%d", kind, n, i)
	case 11: // swap two lines
		ls := strings.Split(s, "\n")
		if len(ls) < 2 {
			return s, "noop"
		}
		a := rapid.IntRange(0, len(ls)-1).Draw(t, "la")
		b := rapid.IntRange(0, len(ls)-1).Draw(t, "lb")
		ls[a], ls[b] = ls[b], ls[a]
		return strings.Join(ls, "\n"), fmt.Sprintf("swap-lines %d %d", a, b)
	case 12: // a $GENERATE with generated numbers
		nums := []string{"0", "1", "2", "255", "65535", "65536", "65537", "2147483647", "2147483648", "4294967296", "9223372036854775807", "9223372036854775808", "-1", "-0", "+1", "1e3", "0x10", ""}
		pick := func(l string) string { return rapid.SampledFrom(nums).Draw(t, l) }
		line := fmt.Sprintf("$GENERATE %s-%s/%s h${%s,%s,%s} 300 IN A 10.0.0.1\n", pick("g1"), pick("g2"), pick("g3"), pick("g4"), pick("g5"), rapid.SampledFrom([]string{"d", "o", "x", "X", "n", "", "dd"}).Draw(t, "g6"))
		i := lineStart(t, s)
		return s[:i] + line + s[i:], fmt.Sprintf("generate-numbers %q", strings.TrimSpace(line))
	case 13: // NUL bytes sprinkled
		b := []byte(s)
		for k := rapid.IntRange(1, 4).Draw(t, "nn"); k > 0 && len(b) > 0; k-- {
			b[rapid.IntRange(0, len(b)-1).Draw(t, "ni")] = 0
		}
		return string(b), "nul-bytes"
	case 14: // repeat a line many times
		ls := strings.Split(s, "\n")
		a := rapid.IntRange(0, len(ls)-1).Draw(t, "la")
		n := rapid.IntRange(2, 200).Draw(t, "rep")
		return strings.Join(ls[:a], "\n") + "\n" + strings.Repeat(ls[a]+"\n", n) + strings.Join(ls[a:], "\n"), fmt.Sprintf("repeat-line %d x%d", a, n)
	case 15: // deep parentheses
		n := rapid.IntRange(1, 3000).Draw(t, "depth")
		i := boundary(t, s)
		return s[:i] + strings.Repeat("(", n) + " x " + strings.Repeat(")", rapid.IntRange(0, n).Draw(t, "close")) + s[i:], fmt.Sprintf("parens depth=%d", n)
	case 17: // delete one character next to an inner separator of a token (":x", "k=", "/24" ...)
		var idx []int
		for i := 0; i < len(s); i++ {
			if strings.IndexByte(":=/,!-+@.", s[i]) >= 0 {
				idx = append(idx, i)
			}
		}
		if len(idx) == 0 {
			return s, "noop"
		}
		i := idx[rapid.IntRange(0, len(idx)-1).Draw(t, "sepi")]
		if rapid.Bool().Draw(t, "before") {
			i--
		} else {
			i++
		}
		if i < 0 || i >= len(s) {
			return s, "noop"
		}
		return s[:i] + s[i+1:], fmt.Sprintf("delete-near-separator @%d", i)
	case 16: // a run of directive lines with no record between them
		n := rapid.IntRange(200, 3000).Draw(t, "run")
		if big {
			n = rapid.IntRange(100000, 400000).Draw(t, "runbig")
		}
		lines := []string{"$TTL 1\n", "$ORIGIN x.example.\n", "$TTL 2 ; comment\n", "$ORIGIN @\n"}
		if !pbt.Known(kRecursion) {
			lines = append(lines, "$GENERATE 0-0 \n", "$INCLUDE empty.db\n", "$GENERATE 1-1 $$INCLUDE empty.db\n")
		} else {
			pbt.Excluded(kRecursion)
		}
		a := lines[rapid.IntRange(0, len(lines)-1).Draw(t, "l1")]
		b := lines[rapid.IntRange(0, len(lines)-1).Draw(t, "l2")]
		filler := rapid.SampledFrom([]string{"", "\n", "; comment\n", "  \n"}).Draw(t, "fill")
		i := lineStart(t, s)
		return s[:i] + strings.Repeat(a+filler+b, n/2) + s[i:], fmt.Sprintf("directive-run n=%d %q %q", n, strings.TrimSpace(a), strings.TrimSpace(b))
	default: // flip letter case / whitespace kind of a region
		return strings.ToUpper(s), "upper"
	}
}

func boundary(t *rapid.T, s string) int {
	var idx []int
	for i := 0; i <= len(s); i++ {
		if i == 0 || i == len(s) || s[i] == ' ' || s[i] == '\t' || s[i] == '\n' {
			idx = append(idx, i)
		}
	}
	return idx[max(rapid.IntRange(0, len(idx)-1).Draw(t, "bnd"), rapid.IntRange(0, len(idx)-1).Draw(t, "bnd2"))]
}

func lineStart(t *rapid.T, s string) int {
	idx := []int{0}
	for i := 0; i < len(s); i++ {
		if s[i] == '\n' {
			idx = append(idx, i+1)
		}
	}
	return idx[rapid.IntRange(0, len(idx)-1).Draw(t, "ls")]
}

func genCfg(t *rapid.T, z *zm.Zone) parserCfg {
	cfg := parserCfg{File: z.FileName}
	switch rapid.IntRange(0, 11).Draw(t, "ok") {
	case 0:
		cfg.Origin = ""
	case 1:
		cfg.Origin = "."
	case 2:
		cfg.Origin = rapid.SampledFrom([]string{"a..b", "..", strings.Repeat("x", 64) + ".example.", "\\", "a\\"}).Draw(t, "bad")
		cfg.BadOrigin = true
	default:
		cfg.Origin = zm.OriginText(t, z)
	}
	if rapid.Bool().Draw(t, "dt") {
		cfg.HasDefTTL, cfg.DefTTL = true, rapid.Uint32().Draw(t, "dtv")
	}
	switch rapid.IntRange(0, 2).Draw(t, "inc") {
	case 0:
		cfg.Allowed, cfg.UseFS = true, true
	case 1:
		cfg.Allowed, cfg.UseFS = false, true
	default:
		cfg.Allowed, cfg.UseFS = false, false
	}
	return cfg
}

// extraFiles are always present in the include FS: a self-including file, a two-file cycle, a
// long chain, an innocent file.
func extraFiles() map[string]string {
	m := map[string]string{
		"self.db":    "self 300 IN A 10.9.9.9\n$INCLUDE self.db\nafter-self 300 IN A 10.9.9.8\n",
		"cycle-a.db": "ca 300 IN A 10.9.9.1\n$INCLUDE cycle-b.db\n",
		"cycle-b.db": "cb 300 IN A 10.9.9.2\n$INCLUDE cycle-a.db\n",
		"inc1":       "i1 300 IN A 10.9.9.3\n",
		"empty.db":   "; no records\n",
	}
	for i := 1; i <= 10; i++ {
		body := fmt.Sprintf("chain%d 300 IN A 10.9.8.%d\n", i, i)
		if i < 10 {
			body += fmt.Sprintf("$INCLUDE chain%d.db\n", i+1)
		}
		m[fmt.Sprintf("chain%d.db", i)] = body
	}
	return m
}

func genHostile(t *rapid.T) hostileCase {
	o, ro := knownAll()
	z := zm.GenZone(t, o)
	den, err := zm.Denote(z)
	if err != nil {
		t.Fatalf("generator: %v", err)
	}
	r, err := zm.Render(t, z, den, ro)
	if err != nil {
		t.Fatalf("renderer: %v", err)
	}
	c := hostileCase{Files: map[string]string{}}
	for k, v := range extraFiles() {
		c.Files[k] = v
	}
	for k, v := range r.Files {
		c.Files[k] = v
	}
	c.Cfg = genCfg(t, z)
	nm := rapid.IntRange(1, 4).Draw(t, "nmut")
	bigLeft := 1
	for i := 0; i < nm; i++ {
		// mostly the top-level file, sometimes an included one
		target := z.FileName
		if names := z.FileNames(); len(names) > 1 && rapid.IntRange(0, 3).Draw(t, "tf") == 0 {
			target = names[rapid.IntRange(1, len(names)-1).Draw(t, "tfi")]
		}
		big := pbt.Thorough() && bigLeft > 0 && rapid.IntRange(0, 9).Draw(t, "big") == 0
		txt, what := mutate(t, c.Files[target], big)
		if strings.HasPrefix(what, "long") || strings.HasPrefix(what, "directive-run") {
			bigLeft--
		}
		c.Files[target] = txt
		c.Mutations = append(c.Mutations, what+" in "+target)
	}
	if pbt.Known(kGenErrRecord) && riskyModifier(c.Files) {
		pbt.Excluded(kGenErrRecord)
		neutralise(c.Files)
		c.Mutations = append(c.Mutations, "neutralised-modifiers")
	}
	if pbt.Known(kGenQuadratic) && longGenerate(c.Files) {
		pbt.Excluded(kGenQuadratic)
		for k, txt := range c.Files {
			c.Files[k] = cutLongGenerate(txt)
		}
		c.Mutations = append(c.Mutations, "cut-long-generate")
	}
	for k, txt := range c.Files {
		if capped := capExpansion(txt); capped != txt {
			c.Files[k] = capped
			c.Mutations = append(c.Mutations, "expansion-capped in "+k)
		}
	}
	if pbt.Known(kGenEscape) && textHasEscapeChain(c.Files) {
		pbt.Excluded(kGenEscape)
		for k, txt := range c.Files {
			if rest := afterGenerate(txt); escapeChain(rest) > maxEscapeChain {
				c.Files[k] = txt[:len(txt)-len(rest)] + breakChains(rest)
			}
		}
		c.Mutations = append(c.Mutations, "escape-chains-broken")
	}
	if pbt.Known(kGenRequote) && textRequotesNewline(c.Files) {
		pbt.Excluded(kGenRequote)
		for k, txt := range c.Files {
			if rest := afterGenerate(txt); strings.Contains(rest, "\\\"") {
				c.Files[k] = txt[:len(txt)-len(rest)] + strings.ReplaceAll(rest, "\\\"", "\"")
			}
		}
		c.Mutations = append(c.Mutations, "escaped-quotes-unescaped")
	}
	if pbt.Known(kGenOpenQuote) {
		for k, txt := range c.Files {
			if generateInOpenQuote(txt) {
				pbt.Excluded(kGenOpenQuote)
				if txt += "\"\n"; generateInOpenQuote(txt) {
					txt += " \"\n"
				}
				if generateInOpenQuote(txt) {
					txt = strings.ReplaceAll(txt, "\"", "x")
				}
				c.Files[k] = txt
				c.Mutations = append(c.Mutations, "open-quote-closed in "+k)
			}
		}
	}
	if pbt.Known(kGenEOF) && endsInBareGenerate(c.Files) {
		pbt.Excluded(kGenEOF)
		for k, txt := range c.Files {
			if genEOFRe.MatchString(normLex(txt)) {
				c.Files[k] = txt + "\n"
			}
		}
		c.Mutations = append(c.Mutations, "newline-after-bare-generate")
	}
	return c
}

// ---------------------------------------------------------------------------------------------
// fault localisation: a valid zone + one bad line inserted after item j of a file

type faultCase struct {
	Zone       zm.Zone
	OriginText string
	Files      map[string]string // the rendering, before the insertion
	Spans      map[string][]zm.LineSpan
	File       string // file that receives the bad line
	After      int    // item index after which it is inserted (-1 = before the first item)
	Bad        string // the bad line (no newline)
}

// badLines: single physical lines with a malformed token that is present on the line itself.
// (Lines that merely lack a trailing field are not used: the parser then reads on into the next
// line and reports the position there, or accepts the record at end of input; see the report.)
var badLines = []string{
	"bad.example. 300 IN A not-an-address",
	"bad.example. 300 IN AAAA 1.2.3.4",
	"bad.example. 300 IN MX mail.example.",
	"bad.example. 300 IN MX 70000 mail.example.",
	"bad.example. 300 IN IN A 10.0.0.1",
	"bad.example. 300 IN CLASS1 A 10.0.0.1",
	"bad.example. 300 400 IN A 10.0.0.1",
	"bad.example. 99999999999 IN A 10.0.0.1",
	// TTLs beyond 32 bits, also where the library's 64-bit arithmetic wraps around
	"bad.example. 4294967296 IN A 10.0.0.1",
	"bad.example. 7102w IN A 10.0.0.1",
	"bad.example. 30500568904944w IN A 10.0.0.1",
	"bad.example. 18446744073709551621 IN A 10.0.0.1",
	"bad.example. 5124095576030431h5 IN A 10.0.0.1",
	"$TTL 30500568904944w",
	"$TTL 18446744073709551616",
	"bad.example. 300 IN NOSUCHTYPE 10.0.0.1",
	"bad.example. 300 IN TYPE65536 \\# 0",
	"bad.example. 300 CLASS65536 A 10.0.0.1",
	"bad.example. CLASS99999 300 A 10.0.0.1",
	"bad.example. CLASSx A 10.0.0.1",
	"bad.example. 300 TYPEx 10.0.0.1",
	"bad.example. 300 IN TYPE1 \\# 5 01020304",
	"bad.example. 300 IN A 10.0.0.1 trailing-garbage",
	"bad.example. 300 IN A 10.0.0.1 )",
	"bad.example. 300 IN NS bad..name.",
	"bad.example. 300 IN",
	"bad.example.",
	"bad..example. 300 IN A 10.0.0.1",
	"$TTL not-a-ttl",
	"$TTL",
	"$ORIGIN bad..name.",
	"$GENERATE 1-0 a$ A 10.0.0.1",
	"$GENERATE 0-65536 a$ A 10.0.0.1",
	"$GENERATE 1-2/0 a$ A 10.0.0.1",
	// malformed numbers and modifiers of $GENERATE
	"$GENERATE x-5 a$ A 10.0.0.1",
	"$GENERATE 1e1-20 a$ A 10.0.0.1",
	"$GENERATE 0-y a$ A 10.0.0.1",
	"$GENERATE 0-0x5 a$ A 10.0.0.1",
	"$GENERATE -5 a$ A 10.0.0.1",
	"$GENERATE 5- a$ A 10.0.0.1",
	"$GENERATE 5 a$ A 10.0.0.1",
	"$GENERATE 1-5/ a$ A 10.0.0.1",
	"$GENERATE 1-5/z a$ A 10.0.0.1",
	"$GENERATE 1-2 a${0,0,d,x} 300 IN A 10.0.0.1",
	"$GENERATE 1-2 a${x} 300 IN A 10.0.0.1",
	"$GENERATE 1-2 a${0,y} 300 IN A 10.0.0.1",
	"$GENERATE 1-2 a${0,256} 300 IN A 10.0.0.1",
	"$GENERATE 1-2 a${0,0,q} 300 IN A 10.0.0.1",
	"$GENERATE 1-2 a${} 300 IN A 10.0.0.1",
	"$GENERATE 1-2 a${0,0,d 300 IN A 10.0.0.1",
	"$GENERATE 1-2 a.example. 300 IN A 10.0.0.${0,,d}",
	"$GENERATE 1-2 a${-5} 300 IN A 10.0.0.1",
	"$INCLUDE no-such-file.db",
	// lexical faults on directive lines
	"$TTL 300 )",
	"$ORIGIN example. )",
	"$INCLUDE no-such-file.db )",
	"$INCLUDE no-such-file.db sub.example. )",
	"$GENERATE 1-2 a$ 300 IN A 10.0.0.$ )",
	"$TTL ) 300",
	"$ORIGIN ) example.",
	"$INCLUDE ) no-such-file.db",
}

func genFault(t *rapid.T) faultCase {
	o, ro := zm.GenOpts{MaxItems: 8, HostileLabels: true, ForceGenerateTTL: true}, zm.RenderOpts{ForceGenerateTTL: true, BlankBeforeComment: true, BlankWithNewline: true, NoComment511: true,
		NoCommentBeforeKeywordRdata: true, KeywordLike: keywordLike, AvoidEscapedOnly: true}
	// the zone itself must parse on the pinned tree: the classes of C06's known findings are avoided
	o.KeywordLike = keywordLike
	o.BanSamples = map[string]bool{"IPSECKEY": true}
	z := zm.GenZone(t, o)
	den, err := zm.Denote(z)
	if err != nil {
		t.Fatalf("generator: %v", err)
	}
	r, err := zm.Render(t, z, den, ro)
	if err != nil {
		t.Fatalf("renderer: %v", err)
	}
	c := faultCase{Zone: *z, OriginText: zm.OriginText(t, z), Files: r.Files, Spans: r.Spans}
	// candidate files: visited exactly once... the first visit is where the error strikes, so any
	// visited file works; prefer the top-level file
	names := []string{z.FileName}
	for _, f := range z.FileNames()[1:] {
		if fs := den.Facts[f]; fs != nil {
			names = append(names, f)
		}
	}
	c.File = names[0]
	if len(names) > 1 && rapid.IntRange(0, 2).Draw(t, "ff") == 0 {
		c.File = names[rapid.IntRange(1, len(names)-1).Draw(t, "ffi")]
	}
	n := len(z.FileItems(c.File))
	c.After = rapid.IntRange(-1, n-1).Draw(t, "after")
	c.Bad = rapid.SampledFrom(badLines).Draw(t, "bad")
	if _, late := badGenerated[c.Bad]; late && pbt.Known(kGenLine) {
		pbt.Excluded(kGenLine)
		c.Bad = "$GENERATE 1-2 a${0,0,q} 300 IN A 10.0.0.1"
	}
	if pbt.Known(kTTLUnits) && unitOnlyTTL(c.Bad) {
		pbt.Excluded(kTTLUnits)
		c.Bad = "$TTL not-a-ttl"
	}
	if pbt.Known(kTTLWrap) && wrapsTTL(c.Bad) {
		pbt.Excluded(kTTLWrap)
		c.Bad = "bad.example. 99999999999 IN A 10.0.0.1"
	}
	return c
}

func keywordLike(tok string) bool {
	u := strings.ToUpper(tok)
	if _, ok := dns.StringToType[u]; ok {
		return true
	}
	if _, ok := dns.StringToClass[u]; ok {
		return true
	}
	return strings.HasPrefix(u, "TYPE") || strings.HasPrefix(u, "CLASS")
}

// insertLine inserts bad as a new physical line after physical line k (1-based; 0 = at the top).
func insertLine(text string, k int, bad string) (string, int) {
	lines := strings.SplitAfter(text, "\n")
	// SplitAfter keeps the terminators; a text that ends in "\n" yields a final empty element
	if k > len(lines) {
		k = len(lines)
	}
	var sb strings.Builder
	for i := 0; i < k; i++ {
		sb.WriteString(lines[i])
	}
	if k > 0 && !strings.HasSuffix(lines[k-1], "\n") {
		sb.WriteString("\n")
	}
	sb.WriteString(bad + "\n")
	for i := k; i < len(lines); i++ {
		sb.WriteString(lines[i])
	}
	return sb.String(), k + 1
}

func checkFault(c faultCase) error {
	den, err := zm.Denote(&c.Zone)
	if err != nil || den.Err != "" {
		pbt.Note(nil, false, "invalid-model")
		return nil
	}
	items := c.Zone.FileItems(c.File)
	facts := den.Facts[c.File]
	spans := c.Spans[c.File]
	if facts == nil || len(spans) != len(items) || c.After < -1 || c.After >= len(items) {
		pbt.Note(nil, false, "invalid-model")
		return nil
	}
	// how many records precede the bad line in parse order (first visit of the file)
	want := 0
	afterLine := 0
	if c.After >= 0 {
		if len(facts[c.After]) == 0 {
			pbt.Note(nil, false, "invalid-model")
			return nil
		}
		want = facts[c.After][0].RecsAfter
		afterLine = spans[c.After].Last
	} else if len(items) > 0 && len(facts[0]) > 0 {
		want = facts[0][0].RecsBefore
	} else if len(items) == 0 {
		// an empty included file: the records before its $INCLUDE
		pbt.Note(nil, false, "empty-file")
		return nil
	}
	files := map[string]string{}
	for k, v := range c.Files {
		files[k] = v
	}
	text, badLine := insertLine(files[c.File], afterLine, c.Bad)
	files[c.File] = text
	cfg := parserCfg{File: c.Zone.FileName, Origin: c.OriginText, HasDefTTL: c.Zone.HasDefTTL, DefTTL: c.Zone.DefTTL, Allowed: true, UseFS: true}
	out, viol := runParser(files, cfg, nil)
	pbt.Note(caseKey(files, cfg), want > 0 || hasDirective(text), "bad:"+strings.Join(strings.Fields(c.Bad)[:1], ""), fmt.Sprintf("in-include=%v", c.File != c.Zone.FileName),
		fmt.Sprintf("records-before=%s", bucket(want)))
	ctx := func() string {
		return fmt.Sprintf("bad line %q inserted as line %d of %s (after item %d)\n%s", c.Bad, badLine, c.File, c.After, show(files, cfg))
	}
	if viol != nil {
		return pbt.Errf("%v\n%s", viol, ctx())
	}
	if out.Err == nil {
		return pbt.Errf("no error reported, %d records returned\n%s", out.N, ctx())
	}
	if good, ok := badGenerated[c.Bad]; ok {
		// a $GENERATE whose lines go wrong at a later step: the steps before it yield records
		if out.N == want+good {
			out.N = want
			if len(out.First) > want {
				out.First = out.First[:want]
			}
		}
	}
	if out.N != want {
		return pbt.Errf("%d records returned before the error %v, want exactly the %d records of the lines before the bad line\n%s", out.N, out.Err, want, ctx())
	}
	if want <= keepRecords {
		if err := zm.Compare(out.First, den.Recs[:want]); err != nil {
			return pbt.Errf("records before the bad line: %v\n%s", err, ctx())
		}
	}
	fname := c.File
	if !strings.HasPrefix(out.Err.Error(), fname+": dns: ") {
		return pbt.Errf("error %q does not name the file %q\n%s", out.Err, fname, ctx())
	}
	if l := errLine(out.Err); l != badLine {
		return pbt.Errf("error %q reports line %d, the bad line is line %d\n%s", out.Err, l, badLine, ctx())
	}
	return nil
}

func bucket(n int) string {
	switch {
	case n == 0:
		return "0"
	case n <= 3:
		return "1-3"
	case n <= 20:
		return "4-20"
	}
	return ">20"
}

// ---------------------------------------------------------------------------------------------
// read faults: a valid zone whose reader (or one of whose include files) fails after a generated
// number of octets with a generated kind of error

type readFaultCase struct {
	Zone       zm.Zone
	OriginText string
	Files      map[string]string
	Spans      map[string][]zm.LineSpan
	File       string // the file whose reader fails
	At         int    // after this many octets
	Kind       int
	ByteReader bool
	// Round 10: delivery of the failure (see parserCfg)
	Once  bool `json:",omitempty"`
	Chunk int  `json:",omitempty"`
	With  int  `json:",omitempty"`
	Bufio int  `json:",omitempty"`
}

func genReadFault(t *rapid.T) readFaultCase {
	o, ro := zm.GenOpts{MaxItems: 8, HostileLabels: true}, zm.RenderOpts{BlankBeforeComment: true, BlankWithNewline: true, NoComment511: true} // the zone itself must parse: the classes of C06's open findings are avoided
	z := zm.GenZone(t, o)
	den, err := zm.Denote(z)
	if err != nil {
		t.Fatalf("generator: %v", err)
	}
	r, err := zm.Render(t, z, den, ro)
	if err != nil {
		t.Fatalf("renderer: %v", err)
	}
	c := readFaultCase{Zone: *z, OriginText: zm.OriginText(t, z), Files: r.Files, Spans: r.Spans}
	names := []string{z.FileName}
	for _, f := range z.FileNames()[1:] {
		if den.Facts[f] != nil {
			names = append(names, f)
		}
	}
	c.File = names[0]
	if len(names) > 1 && rapid.IntRange(0, 2).Draw(t, "ff") == 0 {
		c.File = names[rapid.IntRange(1, len(names)-1).Draw(t, "ffi")]
	}
	txt := c.Files[c.File]
	// offsets: anywhere, with a bias to line boundaries (just before / just after a newline)
	c.At = rapid.IntRange(0, len(txt)).Draw(t, "at")
	if rapid.IntRange(0, 2).Draw(t, "atnl") == 0 {
		var nl []int
		for i := 0; i < len(txt); i++ {
			if txt[i] == '\n' {
				nl = append(nl, i, i+1)
			}
		}
		if len(nl) > 0 {
			c.At = nl[rapid.IntRange(0, len(nl)-1).Draw(t, "nli")]
		}
	}
	c.Kind = rapid.IntRange(0, len(faultKindNames)-1).Draw(t, "kind")
	c.ByteReader = rapid.Bool().Draw(t, "br")
	genDelivery(t, &c, len(txt))
	// known findings: a failure inside the logical line of a $GENERATE / $INCLUDE; the cut moves
	// to the start of that line
	if pbt.Known(kGenReadErr) {
		if at, moved := avoidDirectiveLine(z.FileItems(c.File), c.Spans[c.File], txt, c.At, zm.KGenerate); moved {
			pbt.Excluded(kGenReadErr)
			c.At = at
		}
	}
	if pbt.Known(kIncReadErr) {
		if at, moved := avoidDirectiveLine(z.FileItems(c.File), c.Spans[c.File], txt, c.At, zm.KInclude); moved {
			pbt.Excluded(kIncReadErr)
			c.At = at
		}
	}
	return c
}

// kIncReadErr: a reader failure inside a $INCLUDE line does not stop the directive.
const kIncReadErr = "include-read-error"

// kGenReadErr: a reader failure inside a $GENERATE line does not stop the directive.
const kGenReadErr = "generate-read-error"

// avoidDirectiveLine moves an offset that lies inside the logical line of a directive item (after
// its first octet, up to and including its newline) to the start of that line.
func avoidDirectiveLine(items []zm.Item, spans []zm.LineSpan, txt string, at int, kind zm.ItemKind) (int, bool) {
	starts := []int{0}
	for i := 0; i < len(txt); i++ {
		if txt[i] == '\n' {
			starts = append(starts, i+1)
		}
	}
	for j, it := range items {
		if it.Kind != kind || j >= len(spans) || spans[j].First < 1 || spans[j].First > len(starts) {
			continue
		}
		from := starts[spans[j].First-1]
		to := len(txt) + 1 // the line has no newline: a failure at the very end is inside it
		if spans[j].Last < len(starts) {
			to = starts[spans[j].Last] // first octet of the next line
		}
		if at > from && at < to {
			return from, true
		}
	}
	return at, false
}

func checkReadFault(c readFaultCase) error {
	den, err := zm.Denote(&c.Zone)
	if err != nil || den.Err != "" {
		pbt.Note(nil, false, "invalid-model")
		return nil
	}
	items := c.Zone.FileItems(c.File)
	facts := den.Facts[c.File]
	spans := c.Spans[c.File]
	txt, ok := c.Files[c.File]
	if !ok || facts == nil || len(spans) != len(items) || c.At < 0 || c.At > len(txt) || c.Kind < 0 || c.Kind >= len(faultKindNames) {
		pbt.Note(nil, false, "invalid-model")
		return nil
	}
	// offset of the newline that ends physical line k (1-based); len(txt) when there is none
	var lineEnd []int
	for i := 0; i < len(txt); i++ {
		if txt[i] == '\n' {
			lineEnd = append(lineEnd, i)
		}
	}
	endOf := func(line int) int {
		if line-1 < len(lineEnd) {
			return lineEnd[line-1]
		}
		return len(txt)
	}
	// items whose terminating newline was delivered before the failure are complete
	upper := -1
	complete := 0
	for j := range items {
		if len(facts[j]) == 0 {
			continue
		}
		if upper < 0 {
			upper = facts[j][0].RecsBefore
		}
		if endOf(spans[j].Last) < c.At {
			upper = facts[j][0].RecsAfter
			complete++
		}
	}
	if upper < 0 {
		pbt.Note(nil, false, "empty-file")
		return nil
	}
	cfg := parserCfg{File: c.Zone.FileName, Origin: c.OriginText, HasDefTTL: c.Zone.HasDefTTL, DefTTL: c.Zone.DefTTL, Allowed: true, UseFS: true,
		FaultFile: c.File, FaultAt: c.At, FaultKind: c.Kind, ByteReader: c.ByteReader,
		FaultOnce: c.Once, FaultChunk: c.Chunk, FaultWith: c.With, Bufio: c.Bufio}
	out, viol := runParser(c.Files, cfg, nil)
	boundary := c.At == 0 || txt[c.At-1] == '\n'
	pbt.Note(caseKey(c.Files, cfg), upper > 0 || complete > 0 || (c.Once && len(den.Recs) > 0), append(deliveryClasses(cfg),
		"fault-kind:"+faultKindNames[c.Kind], fmt.Sprintf("fault-in-include=%v", c.File != c.Zone.FileName),
		fmt.Sprintf("fault-at-line-boundary=%v", boundary), fmt.Sprintf("records-before=%s", bucket(upper)), fmt.Sprintf("byte-reader=%v", c.ByteReader))...)
	ctx := func() string {
		return fmt.Sprintf("reading %s fails after %d of %d octets with %q (%s; %s); complete items before: %d\n%s", c.File, c.At, len(txt), faultErr(c.Kind), faultKindNames[c.Kind], deliveryText(cfg), complete, show(c.Files, cfg))
	}
	if viol != nil {
		return pbt.Errf("%v\n%s", viol, ctx())
	}
	if out.Err == nil {
		return pbt.Errf("the reader failed but Err() == nil (%d records returned)\n%s", out.N, ctx())
	}
	if out.N > upper {
		return pbt.Errf("%d records returned, but only %d records come from lines that were read completely before the failure (error %v)\n%s", out.N, upper, out.Err, ctx())
	}
	if out.N <= keepRecords {
		if err := zm.Compare(out.First, den.Recs[:out.N]); err != nil {
			return pbt.Errf("the records returned before the failure are not a prefix of the fault-free records: %v\n%s", err, ctx())
		}
	}
	return nil
}

// ---------------------------------------------------------------------------------------------
// include gate, depth limit, nested generate, generate range limits (deterministic scenarios with
// generated surroundings)

type gateCase struct {
	Kind    string
	Depth   int    // chain depth for "chain"
	Allowed bool   // for "via-generate" / "plain"
	Prefix  string // valid lines before
	Suffix  string // valid lines after
	N       int64  // generate: number of steps
	Step    int64
	Rem     int64 // generate: the stop lies Rem (< Step) beyond the last generated value
}

var gateKinds = []string{"self", "cycle", "chain", "missing", "not-allowed", "not-allowed-nil-fs-canary", "via-generate-not-allowed", "nested-generate", "generate-limit", "generate-in-include-depth", "generate-overflow",
	"generate-include-uses-fs", "nested-generate-via-include", "overlong-completion"}

func genGate(t *rapid.T) gateCase {
	c := gateCase{Kind: rapid.SampledFrom(gateKinds).Draw(t, "kind")}
	c.Depth = rapid.IntRange(1, 10).Draw(t, "depth")
	c.Allowed = rapid.Bool().Draw(t, "allowed")
	np := rapid.IntRange(0, 3).Draw(t, "np")
	for i := 0; i < np; i++ {
		c.Prefix += fmt.Sprintf("p%d.example. 300 IN A 10.1.1.%d\n", i, i)
	}
	if rapid.Bool().Draw(t, "sfx") {
		c.Suffix = "z.example. 300 IN A 10.2.2.2\n"
	}
	c.Step = rapid.SampledFrom([]int64{1, 2, 3, 7, 1000}).Draw(t, "step")
	c.N = rapid.SampledFrom([]int64{65534, 65535, 65536, 65537, 70000, 131072}).Draw(t, "n")
	c.Rem = rapid.Int64Range(0, c.Step-1).Draw(t, "rem")
	return c
}

func eachGate(emit func(gateCase)) {
	pre, suf := "p0.example. 300 IN A 10.1.1.0\n", "z.example. 300 IN A 10.2.2.2\n"
	for _, k := range gateKinds {
		switch k {
		case "overlong-completion":
			for d := 0; d < 4; d++ {
				emit(gateCase{Kind: k, Depth: d, Prefix: pre, Suffix: suf, N: 1, Step: 1})
			}
		case "chain", "generate-in-include-depth":
			for d := 1; d <= 10; d++ {
				emit(gateCase{Kind: k, Depth: d, Prefix: pre, Suffix: suf, N: 1, Step: 1})
			}
		case "generate-limit":
			// both sides of the step-count limit, every kind of remainder
			for _, n := range []int64{65535, 65536, 65537} {
				for _, st := range []int64{1, 2, 3, 7} {
					seen := map[int64]bool{}
					for _, rem := range []int64{0, 1, st / 2, st - 1} {
						if rem >= st || seen[rem] {
							continue
						}
						seen[rem] = true
						emit(gateCase{Kind: k, Prefix: pre, Suffix: suf, N: n, Step: st, Rem: rem})
					}
				}
			}
		default:
			for _, a := range []bool{false, true} {
				emit(gateCase{Kind: k, Allowed: a, Prefix: pre, Suffix: suf, N: 1, Step: 1})
				emit(gateCase{Kind: k, Allowed: a, N: 1, Step: 1})
			}
		}
	}
}

// Known findings around $INCLUDE inside a $GENERATE expansion.
const (
	kGenFS     = "generate-include-ignores-fs"
	kNestedInc = "nested-generate-via-include"
)

const nestedBody = "$GENERATE 1-2 inner$ 300 IN A 10.7.7.$\n"

var nestedPath string

// nestedFile is a real file with a $GENERATE in it.
func nestedFile() string {
	if nestedPath == "" {
		nestedPath = filepath.Join(filepath.Dir(canary()), "nested.db")
		if err := os.WriteFile(nestedPath, []byte(nestedBody), 0o644); err != nil {
			panic(err)
		}
	}
	return nestedPath
}

// kOverlong: names that exceed 255 octets after completion with the origin are accepted.
const kOverlong = "overlong-completed-name"

// overlongLine: l63.l63.l63.l61 is 255 octets in wire form (valid); under origin example. the
// completed name has 263.
func overlongLine(variant int) string {
	l63 := strings.Repeat("a", 63)
	rel := l63 + "." + l63 + "." + l63 + "." + strings.Repeat("b", 61)
	switch variant {
	case 0:
		return rel + " 300 IN A 10.0.0.1\n"
	case 1:
		return "x 300 IN NS " + rel + "\n"
	case 2:
		return "$ORIGIN " + rel + "\n@ 300 IN A 10.0.0.1\n"
	default:
		return "x 300 IN MX 10 " + rel + "\n"
	}
}

var canaryPath string

func canary() string {
	if canaryPath != "" {
		return canaryPath
	}
	// inside the driver's scratch directory when there is one (it is wiped after the run)
	var dir string
	var err error
	if out := os.Getenv("VERIF_OUT"); out != "" {
		dir = filepath.Join(out, "c07-canary")
		err = os.MkdirAll(dir, 0o755)
	} else {
		dir, err = os.MkdirTemp("", "c07-canary")
	}
	if err != nil {
		panic(err)
	}
	canaryPath = filepath.Join(dir, "canary.db")
	if err := os.WriteFile(canaryPath, []byte("canary.example. 300 IN A 10.66.66.66\n"), 0o644); err != nil {
		panic(err)
	}
	return canaryPath
}

func hasOwner(rrs []dns.RR, prefix string) bool {
	for _, rr := range rrs {
		if strings.HasPrefix(strings.ToLower(rr.Header().Name), prefix) {
			return true
		}
	}
	return false
}

func checkGate(c gateCase) error {
	files := extraFiles()
	cfg := parserCfg{File: "top.db", Origin: "example.", HasDefTTL: true, DefTTL: 5, Allowed: true, UseFS: true}
	np := strings.Count(c.Prefix, "\n")
	var body string
	wantErr := true
	wantRecs := -1  // exact number of records, -1 = not asserted exactly
	maxOpens := -1  // upper bound on Open calls
	forbidden := "" // owner prefix that must not appear
	wantOpens := -1 // exact
	switch c.Kind {
	case "self":
		body = "$INCLUDE self.db\n"
		// self.db is opened once per level until the limit: at most MaxIncludeDepth opens
		maxOpens = zm.MaxIncludeDepth
		forbidden = "after-self"
		wantRecs = np + zm.MaxIncludeDepth
	case "cycle":
		body = "$INCLUDE cycle-a.db\n"
		maxOpens = zm.MaxIncludeDepth
		wantRecs = np + zm.MaxIncludeDepth
	case "chain":
		// chainK.db .. chain10.db: a chain of 11-K files
		k := 11 - c.Depth
		body = fmt.Sprintf("$INCLUDE chain%d.db\n", k)
		if c.Depth <= zm.MaxIncludeDepth {
			wantErr = false
			wantOpens = c.Depth
			wantRecs = np + c.Depth + strings.Count(c.Suffix, "\n")
		} else {
			wantOpens = zm.MaxIncludeDepth
			wantRecs = np + zm.MaxIncludeDepth
		}
	case "missing":
		body = "$INCLUDE missing.db\n"
		wantRecs = np
		maxOpens = 1
	case "not-allowed":
		cfg.Allowed = false
		body = "$INCLUDE inc1\n"
		wantRecs, wantOpens, forbidden = np, 0, "i1."
	case "not-allowed-nil-fs-canary":
		cfg.Allowed, cfg.UseFS = false, false
		body = "$INCLUDE " + canary() + "\n"
		wantRecs, wantOpens, forbidden = np, 0, "canary."
	case "via-generate-not-allowed":
		// the file is a real one: the sub-parser of a $GENERATE has no include FS, so only a
		// real file shows whether the gate holds there
		cfg.Allowed, cfg.UseFS = false, c.Allowed
		body = "$GENERATE 1-2 $$INCLUDE " + canary() + "\n"
		wantRecs, wantOpens, forbidden = np, 0, "canary."
	case "nested-generate":
		cfg.Allowed = c.Allowed
		body = "$GENERATE 1-2 $$GENERATE 1-2 inner$ A 10.0.0.$\n"
		wantRecs, forbidden = np, "inner"
	case "generate-limit":
		// start 0, stop N-1 steps of Step: exactly N iterations
		rem := c.Rem
		if rem < 0 || rem >= c.Step {
			rem = 0
		}
		start := c.Step % 5 // 0..4: the range need not start at zero
		stop := start + (c.N-1)*c.Step + rem
		body = fmt.Sprintf("$GENERATE %d-%d/%d g$ A 10.0.0.1\n", start, stop, c.Step)
		if c.N <= zm.MaxGenerateSteps {
			wantErr = false
			wantRecs = np + int(c.N) + strings.Count(c.Suffix, "\n")
		} else {
			wantRecs, forbidden = np, fmt.Sprintf("g%d.", start)
		}
	case "generate-overflow":
		// the iterator reaches the largest int64 and must stop there instead of wrapping around
		if c.Allowed {
			body = "$GENERATE 0-9223372036854775807/9223372036854775807 g$ A 10.0.0.1\n"
		} else {
			body = "$GENERATE 9223372036854775806-9223372036854775807/2 g$ A 10.0.0.1\n"
		}
		wantErr = false
		wantRecs = np + 1 + strings.Count(c.Suffix, "\n")
		if c.Allowed {
			wantRecs++
		}
	case "generate-include-uses-fs":
		// includes are allowed and an include FS is set: an $INCLUDE that comes out of a
		// $GENERATE expansion must be served by that FS like any other, not by the real file
		// system. The path names a real file (the canary) that the FS does not have.
		if pbt.Known(kGenFS) {
			pbt.Excluded(kGenFS)
			pbt.Note(nil, false, "gate:"+c.Kind+"/excluded")
			return nil
		}
		body = "$GENERATE 1-1 $$INCLUDE " + canary() + "\n"
		wantRecs, forbidden = np, "canary."
		maxOpens = 1
	case "nested-generate-via-include":
		// the expansion of a $GENERATE includes a file that has a $GENERATE of its own: nesting
		// through an include. The file exists both in the real file system and in the FS.
		if pbt.Known(kNestedInc) {
			pbt.Excluded(kNestedInc)
			pbt.Note(nil, false, "gate:"+c.Kind+"/excluded")
			return nil
		}
		cfg.UseFS = c.Allowed
		if !cfg.UseFS {
			// the only place where includes are allowed without an FS: the path is absolute and
			// names the harness's own file
		}
		files[strings.TrimLeft(nestedFile(), "/")] = nestedBody
		body = "$GENERATE 1-2 $$INCLUDE " + nestedFile() + "\n"
		wantRecs, forbidden = -1, "inner"
	case "overlong-completion":
		// a relative name that is valid by itself but exceeds 255 octets once the origin is
		// appended denotes no domain name: the line must be refused
		if pbt.Known(kOverlong) {
			pbt.Excluded(kOverlong)
			pbt.Note(nil, false, "gate:"+c.Kind+"/excluded")
			return nil
		}
		body = overlongLine(c.Depth % 4)
		wantRecs = np
	case "generate-in-include-depth":
		// a $GENERATE that expands to $INCLUDE of a chain, includes allowed but no FS for the
		// sub-parser: only the depth accounting and the gate are asserted via the safety oracle
		cfg.Allowed = false
		body = fmt.Sprintf("$GENERATE 1-1 $$INCLUDE chain%d.db\n$INCLUDE %s\n", 11-c.Depth, canary())
		wantRecs, wantOpens, forbidden = np, 0, "c"
	default:
		pbt.Note(nil, false, "invalid-case")
		return nil
	}
	files["top.db"] = c.Prefix + body + c.Suffix
	out, viol := runParser(files, cfg, nil)
	pbt.Note(caseKey(files, cfg), true, "gate:"+c.Kind, fmt.Sprintf("gate:%s/err=%v", c.Kind, out.Err != nil))
	ctx := func() string {
		return fmt.Sprintf("kind=%s opens=%q err=%v records=%d\n%s", c.Kind, out.Opens, out.Err, out.N, show(map[string]string{"top.db": files["top.db"]}, cfg))
	}
	if viol != nil {
		return pbt.Errf("%v\n%s", viol, ctx())
	}
	if wantErr && out.Err == nil {
		return pbt.Errf("the parse must end with an error\n%s", ctx())
	}
	if !wantErr && out.Err != nil {
		return pbt.Errf("unexpected error\n%s", ctx())
	}
	if wantRecs >= 0 && out.N != wantRecs {
		return pbt.Errf("%d records returned, want %d\n%s", out.N, wantRecs, ctx())
	}
	if wantOpens >= 0 && len(out.Opens) != wantOpens {
		return pbt.Errf("%d Open calls, want %d\n%s", len(out.Opens), wantOpens, ctx())
	}
	if maxOpens >= 0 && len(out.Opens) > maxOpens {
		return pbt.Errf("%d Open calls, want at most %d\n%s", len(out.Opens), maxOpens, ctx())
	}
	if forbidden != "" && hasOwner(out.First, forbidden) {
		return pbt.Errf("a record with owner %q… was returned\n%s", forbidden, ctx())
	}
	if c.Suffix != "" && wantErr && hasOwner(out.First, "z.example.") {
		return pbt.Errf("a record of a line after the error was returned\n%s", ctx())
	}
	return nil
}

// ---------------------------------------------------------------------------------------------
// every presentable type with a syntax fault in its RDATA, followed by another record: the fault
// must be reported, or - if the parser reads the line leniently - nothing after it may be lost

type typeFaultCase struct {
	Sample string
	Fault  string // "close-end", "close-mid", "quote-end", "open-end", "close-open-end"
	Text   string `json:",omitempty"` // rendered text (rapid variant); empty = canonical
	Tail   int    `json:",omitempty"` // 0 = two records follow; 1 = last line of the input; 2 = the same without newline; 3 (sub-token) = inside parentheses over several lines
	Tok    int    `json:",omitempty"` // Fault "sub-token": which RDATA token
	Var    int    `json:",omitempty"` // ... and which of its variants
}

var typeFaults = []string{"close-end", "close-mid", "quote-end", "open-end", "close-open-end", "quote-mid"}

// Known finding: the RDATA loops of some types swallow the lexer's error token.
const kSwallowed = "swallowed-lexer-error"

func faultText(c typeFaultCase) (string, bool) {
	fs, ok := lookupSample(c.Sample) // (round 10: also the samples of this package - SVCB / HTTPS with every kind of parameter, TKEY)
	if !ok {
		return "", false
	}
	sm := struct {
		Name   string
		Tokens []string
	}{fs.Type, fs.Toks}
	toks := append([]string(nil), sm.Tokens...)
	switch c.Fault {
	case "close-end":
		toks = append(toks, ")")
	case "close-mid":
		toks = append(toks[:1], append([]string{")"}, toks[1:]...)...)
	case "quote-end":
		toks = append(toks, "\"")
	case "quote-mid":
		toks = append(toks[:1], append([]string{"\""}, toks[1:]...)...)
	case "open-end":
		toks = append(toks, "(")
	case "close-open-end":
		toks = append(toks, ")", "(")
	default:
		return "", false
	}
	line := "first.example.org. 300 IN " + sm.Name + " " + strings.Join(toks, " ")
	switch c.Tail {
	case 1:
		return "zero.example.org. 600 IN A 192.0.2.0\n" + line + "\n", true
	case 2:
		return "zero.example.org. 600 IN A 192.0.2.0\n" + line, true
	}
	return line + "\nnext.example.org. 600 IN A 192.0.2.1\nlast.example.org. 600 IN A 192.0.2.2\n", true
}

func checkTypeFault(c typeFaultCase) error {
	if err, ok := checkRound8TypeFault(c); ok {
		return err
	}
	if err, ok := checkRound9TypeFault(c); ok {
		return err
	}
	if c.Fault == "quote-glued" {
		text, ok := gluedFaultText(c)
		if !ok {
			pbt.Note(nil, false, "invalid-case")
			return nil
		}
		pbt.Note([]byte(text), true, "type-fault:"+c.Sample, "fault:quote-glued", fmt.Sprintf("quote-glued:blank-behind=%v", c.Var == 0))
		return evalTypeFault(c, text)
	}
	if c.Fault == "sub-token" {
		text, ok := subFaultText(c)
		if !ok {
			pbt.Note(nil, false, "invalid-case")
			return nil
		}
		pbt.Note([]byte(text), true, "type-fault:"+c.Sample, "fault:sub-token", fmt.Sprintf("type-fault:tail=%d", c.Tail))
		c.Tail = 0
		return evalTypeFault(c, text)
	}
	text, ok := faultText(c)
	if !ok {
		pbt.Note(nil, false, "invalid-case")
		return nil
	}
	pbt.Note([]byte(text), true, "type-fault:"+c.Sample, "fault:"+c.Fault, fmt.Sprintf("type-fault:tail=%d", c.Tail))
	return evalTypeFault(c, text)
}

func evalTypeFault(c typeFaultCase, text string) error {
	files := map[string]string{"f.db": text}
	cfg := parserCfg{File: "f.db", Origin: "example.org."}
	out, viol := runParser(files, cfg, nil)
	if viol != nil {
		return pbt.Errf("%v\n%q", viol, text)
	}
	if out.Err != nil {
		// reported: nothing of the later lines may have been returned before the error unless
		// the faulty line itself was read leniently (then the error belongs to a later line)
		return nil
	}
	if strings.HasPrefix(c.Fault, "close") || strings.HasPrefix(c.Fault, "open") {
		return pbt.Errf("%s with fault %s (tail %d): the parentheses of the line are unbalanced and no error is reported (%d records returned)\n%q", c.Sample, c.Fault, c.Tail, out.N, text)
	}
	if c.Tail > 0 {
		if !hasOwner(out.First, "zero.example.org.") {
			return pbt.Errf("%s with fault %s: no error is reported and the record before the line is missing\n%q", c.Sample, c.Fault, text)
		}
		return nil
	}
	// no error: the fault was read leniently; then the records of the following lines must all
	// be there (an unreported problem must not make the parser drop the rest of the file)
	if !hasOwner(out.First, "next.example.org.") || !hasOwner(out.First, "last.example.org.") {
		return pbt.Errf("%s with fault %s: no error is reported and the records of the following lines are missing (%d records returned: %v)\n%q", c.Sample, c.Fault, out.N, out.First, text)
	}
	return nil
}

// subTokenVariants: RDATA tokens with inner structure (family:address/prefix, key=value, lists
// with commas, dotted and dashed forms) with an empty part next to each inner separator: the part
// before it dropped, the part behind it dropped, the separator doubled, the separator alone.
func subTokenVariants(tok string) []string {
	if tok == "" || tok[0] == '"' {
		return nil
	}
	seen := map[string]bool{tok: true}
	var out []string
	add := func(v string) {
		if v != "" && !seen[v] {
			seen[v] = true
			out = append(out, v)
		}
	}
	for i := 0; i < len(tok); i++ {
		if strings.IndexByte(":=/,!.-+@", tok[i]) < 0 {
			continue
		}
		add(tok[i:])
		add(tok[:i+1])
		add(tok[:i+1] + tok[i:])
		add(tok[i : i+1])
		if i+1 < len(tok) {
			add(tok[:i] + tok[i+1:]) // the separator itself dropped
		}
	}
	return out
}

// subFaultText: sample with token number Tok replaced by its variant number Var.
func subFaultText(c typeFaultCase) (string, bool) {
	sm, ok := zm.SampleByName(c.Sample)
	if !ok || c.Tok < 0 || c.Tok >= len(sm.Tokens) {
		return "", false
	}
	vs := subTokenVariants(sm.Tokens[c.Tok])
	if c.Var < 0 || c.Var >= len(vs) {
		return "", false
	}
	toks := append([]string(nil), sm.Tokens...)
	toks[c.Tok] = vs[c.Var]
	line := "first.example.org. 300 IN " + sm.Name + " " + strings.Join(toks, " ")
	if c.Tail == 3 {
		// inside parentheses, spread over lines
		line = "first.example.org. 300 IN " + sm.Name + " (\n " + strings.Join(toks, "\n ") + "\n )"
	}
	return line + "\nnext.example.org. 600 IN A 192.0.2.1\nlast.example.org. 600 IN A 192.0.2.2\n", true
}

func eachTypeFault(emit func(typeFaultCase)) {
	eachRound9TypeFault(emit) // (first: the cheapest cases)
	eachGlued(emit)
	eachRound8TypeFault(emit)
	for _, sm := range zm.Samples {
		for ti, tok := range sm.Tokens {
			for vi := range subTokenVariants(tok) {
				emit(typeFaultCase{Sample: sm.Name, Fault: "sub-token", Tok: ti, Var: vi})
				emit(typeFaultCase{Sample: sm.Name, Fault: "sub-token", Tok: ti, Var: vi, Tail: 3})
			}
		}
	}
	for _, sm := range zm.Samples {
		for _, f := range typeFaults {
			if (f == "close-mid" || f == "quote-mid") && len(sm.Tokens) < 2 {
				continue
			}
			if pbt.Known(kSwallowed) && swallowsOnPinnedTree(sm.Name, f) {
				pbt.Excluded(kSwallowed)
				continue
			}
			emit(typeFaultCase{Sample: sm.Name, Fault: f})
			emit(typeFaultCase{Sample: sm.Name, Fault: f, Tail: 1})
			emit(typeFaultCase{Sample: sm.Name, Fault: f, Tail: 2})
		}
	}
	// round 10: the parenthesis and quote faults also for the samples of this package (the value
	// loop of SVCB / HTTPS behind every kind of parameter, TKEY)
	for _, name := range extraSampleNames {
		for _, f := range typeFaults {
			for tail := 0; tail < 3; tail++ {
				emit(typeFaultCase{Sample: name, Fault: f, Tail: tail})
			}
		}
	}
}

// swallowsOnPinnedTree delimits the class of the known finding swallowed-lexer-error: types
// whose RDATA is read by a loop "until newline or end of input" that does not look at the
// lexer's error flag, with a fault the lexer reports through that flag.
func swallowsOnPinnedTree(sample, fault string) bool {
	end := fault == "close-end" || fault == "close-open-end"
	switch sample {
	case "NSEC", "NXT", "APL":
		return end || fault == "close-mid"
	case "LOC", "CSYNC", "NSEC3", "HIP", "SVCB", "HTTPS":
		return end
	}
	return false
}

// ---------------------------------------------------------------------------------------------
// every directive with a lexical fault at every token boundary of its line, between records: the
// fault must be reported, or nothing after the line may be lost

type dirFaultCase struct {
	Directive int // index into directiveLines
	Fault     int // index into directiveFaults
	Pos       int // token boundary (0 = behind the keyword ... n = end of line)
	Allowed   bool
	// Tail: 0 = records follow the line; 1 = the line is the last of the input; 2 = the same
	// without final newline; 3 = the line is the last of an included file, without newline (the
	// includer goes on); 4 = the same with a newline and blank lines behind it
	Tail int `json:",omitempty"`
}

// parenFault: the fault leaves the parentheses of the line unbalanced (input that ends inside
// parentheses, or a closing one too many); that is an error wherever the line stands.
func parenFault(f int) bool {
	switch directiveFaults[f] {
	case ")", ") (", "(", "( ) )":
		return true
	}
	return false
}

var directiveLines = [][]string{
	{"$INCLUDE", "inc1"},
	{"$INCLUDE", "inc1", "sub"},
	{"$INCLUDE", "inc1", "sub", ";", "comment"},
	{"$ORIGIN", "sub"},
	{"$ORIGIN", "sub.example."},
	{"$TTL", "300"},
	{"$TTL", "1h", ";", "comment"},
	{"$GENERATE", "1-2", "g$", "A", "10.0.0.$"},
	{"$GENERATE", "1-2", "g$", "300", "IN", "A", "10.0.0.$"},
	{"$GENERATE", "1-1", "$$INCLUDE", "inc1"},
	{"$GENERATE", "1-1", "$$INCLUDE", "inc1", "sub"},
}

var directiveFaults = []string{")", ") (", "(", "\"", "\" x", "TYPE99999", "CLASS99999", strings.Repeat("a", 70000), "\\", "( ) )"}

func dirFaultText(c dirFaultCase) (string, bool) {
	if c.Directive < 0 || c.Directive >= len(directiveLines) || c.Fault < 0 || c.Fault >= len(directiveFaults) {
		return "", false
	}
	toks := directiveLines[c.Directive]
	if c.Pos < 1 || c.Pos > len(toks) {
		return "", false
	}
	line := strings.Join(append(append(append([]string(nil), toks[:c.Pos]...), directiveFaults[c.Fault]), toks[c.Pos:]...), " ")
	switch c.Tail {
	case 0:
		return "a 60 IN A 10.0.0.1\n" + line + "\nb 60 IN A 10.0.0.2\nc 60 IN A 10.0.0.3\n", true
	case 1:
		return "a 60 IN A 10.0.0.1\n" + line + "\n", true
	case 2:
		return "a 60 IN A 10.0.0.1\n" + line, true
	case 3, 4:
		return "a 60 IN A 10.0.0.1\n$INCLUDE dirfault.db\nb 60 IN A 10.0.0.2\nc 60 IN A 10.0.0.3\n", true
	}
	return "", false
}

// dirFaultInclude is the text of dirfault.db for the tails 3 and 4.
func dirFaultInclude(c dirFaultCase) string {
	toks := directiveLines[c.Directive]
	line := strings.Join(append(append(append([]string(nil), toks[:c.Pos]...), directiveFaults[c.Fault]), toks[c.Pos:]...), " ")
	if c.Tail == 4 {
		return "i 60 IN A 10.0.0.9\n" + line + "\n  \n\n"
	}
	return "i 60 IN A 10.0.0.9\n" + line
}

func checkDirFault(c dirFaultCase) error {
	text, ok := dirFaultText(c)
	if !ok {
		pbt.Note(nil, false, "invalid-case")
		return nil
	}
	pbt.Note([]byte(fmt.Sprint(c)), true, "dir-fault:"+directiveLines[c.Directive][0], fmt.Sprintf("dir-fault:fault=%d", c.Fault), fmt.Sprintf("allowed=%v", c.Allowed), fmt.Sprintf("dir-fault:tail=%d", c.Tail))
	return evalDirFault(c, text)
}

func evalDirFault(c dirFaultCase, text string) error {
	files := extraFiles()
	files["top.db"] = text
	if c.Tail >= 3 {
		files["dirfault.db"] = dirFaultInclude(c)
	}
	cfg := parserCfg{File: "top.db", Origin: "example.", Allowed: c.Allowed, UseFS: true}
	out, viol := runParser(files, cfg, nil)
	show := text
	if c.Tail >= 3 {
		show += " | dirfault.db: " + files["dirfault.db"]
	}
	if len(show) > 300 {
		show = show[:150] + "…" + show[len(show)-100:]
	}
	if viol != nil {
		return pbt.Errf("%s\nincludes allowed=%v\n%q", strings.SplitN(viol.Error(), "\n", 2)[0], c.Allowed, show)
	}
	if out.Err != nil {
		return nil
	}
	inComment := false
	for _, t := range directiveLines[c.Directive][:c.Pos] {
		inComment = inComment || t == ";"
	}
	if parenFault(c.Fault) && !inComment {
		return pbt.Errf("unbalanced parentheses on a directive line (tail %d) and no error is reported (%d records returned: %v)\nincludes allowed=%v\n%q", c.Tail, out.N, out.First, c.Allowed, show)
	}
	has := func(l string) bool {
		return hasOwner(out.First, l+".") || hasOwner(out.First, l+".example.") || hasOwner(out.First, l+".sub.")
	}
	need := []string{"a", "b", "c"}
	switch c.Tail {
	case 1, 2:
		need = []string{"a"}
	case 3, 4:
		need = []string{"a", "i", "b", "c"}
	}
	for _, l := range need {
		if !has(l) {
			return pbt.Errf("no error is reported and records of the lines around the directive are missing (%d records returned: %v)\nincludes allowed=%v\n%q", out.N, out.First, c.Allowed, show)
		}
	}
	return nil
}

func eachDirFault(emit func(dirFaultCase)) {
	for d, toks := range directiveLines {
		for f := range directiveFaults {
			for pos := 1; pos <= len(toks); pos++ {
				for _, a := range []bool{false, true} {
					emit(dirFaultCase{Directive: d, Fault: f, Pos: pos, Allowed: a})
				}
				// the line as the last thing of the input / of an included file
				for tail := 1; tail <= 4; tail++ {
					emit(dirFaultCase{Directive: d, Fault: f, Pos: pos, Allowed: true, Tail: tail})
				}
			}
		}
	}
}

func init() {
	// a $GENERATE whose template has a modifier that is rejected while the expansion is read (the
	// error surfaces in the middle of a generated line) returns a record built from the truncated
	// line together with the error
	c07Probe(kGenErrRecord, func() error {
		files := map[string]string{"g.db": "$GENERATE 0-1 host$ 300 A 10.0.0.1 ${0,0,D}\n"}
		_, viol := runParser(files, parserCfg{File: "g.db", Origin: "example."}, nil)
		if viol != nil {
			return fmt.Errorf("%s", strings.SplitN(viol.Error(), "\n", 2)[0])
		}
		return nil
	})
	c07Probe(kSwallowed, func() error {
		c := typeFaultCase{Sample: "LOC", Fault: "close-end"}
		text, _ := faultText(c)
		if err := evalTypeFault(c, text); err != nil {
			return fmt.Errorf("%s", strings.SplitN(err.Error(), "\n", 2)[0])
		}
		return nil
	})
	c07Probe(kGenFS, func() error {
		files := extraFiles()
		files["top.db"] = "$GENERATE 1-1 $$INCLUDE " + canary() + "\n"
		out, viol := runParser(files, parserCfg{File: "top.db", Origin: "example.", HasDefTTL: true, DefTTL: 5, Allowed: true, UseFS: true}, nil)
		if viol != nil {
			return fmt.Errorf("%s", strings.SplitN(viol.Error(), "\n", 2)[0])
		}
		if hasOwner(out.First, "canary.") {
			return fmt.Errorf("a real file was read although an include FS is set: %v", out.First)
		}
		return nil
	})
	c07Probe(kNestedInc, func() error {
		files := extraFiles()
		files[strings.TrimLeft(nestedFile(), "/")] = nestedBody
		files["top.db"] = "$GENERATE 1-2 $$INCLUDE " + nestedFile() + "\n"
		out, viol := runParser(files, parserCfg{File: "top.db", Origin: "example.", HasDefTTL: true, DefTTL: 5, Allowed: true, UseFS: true}, nil)
		if viol != nil {
			return fmt.Errorf("%s", strings.SplitN(viol.Error(), "\n", 2)[0])
		}
		if hasOwner(out.First, "inner") {
			return fmt.Errorf("a $GENERATE nested in a $GENERATE through an $INCLUDE was expanded: %d records, err=%v", out.N, out.Err)
		}
		return nil
	})
	c07Probe(kGenReadErr, func() error {
		txt := "$GENERATE 1-3 h$ 300 IN A 10.0.0.$ ; comment\nz 300 IN A 10.0.0.9\n"
		cfg := parserCfg{File: "g.db", Origin: "example.", FaultFile: "g.db", FaultAt: strings.Index(txt, ";"), FaultKind: 0}
		out, viol := runParser(map[string]string{"g.db": txt}, cfg, nil)
		if viol != nil {
			return fmt.Errorf("%s", strings.SplitN(viol.Error(), "\n", 2)[0])
		}
		if out.N > 0 {
			return fmt.Errorf("%d records were built from a $GENERATE line that was not read to its end", out.N)
		}
		return nil
	})
	c07Probe(kIncReadErr, func() error {
		files := extraFiles()
		txt := "$INCLUDE inc1 sub ; comment\nz 300 IN A 10.0.0.9\n"
		files["top.db"] = txt
		cfg := parserCfg{File: "top.db", Origin: "example.", Allowed: true, UseFS: true, FaultFile: "top.db", FaultAt: strings.Index(txt, "sub"), FaultKind: 0}
		out, viol := runParser(files, cfg, nil)
		if viol != nil {
			return fmt.Errorf("%s", strings.SplitN(viol.Error(), "\n", 2)[0])
		}
		if out.N > 0 {
			return fmt.Errorf("%d records of the included file were returned (%v) although the $INCLUDE line was not read to its end (its origin argument was lost)", out.N, out.First)
		}
		return nil
	})
	c07Probe(kRecursion, func() error {
		files := extraFiles()
		files["top.db"] = strings.Repeat("$GENERATE 0-0 \n$INCLUDE empty.db\n", 500)
		out, viol := runParserDepth(files, parserCfg{File: "top.db", Origin: "example.", Allowed: true, UseFS: true})
		if viol != nil {
			return fmt.Errorf("%s", strings.SplitN(viol.Error(), "\n", 2)[0])
		}
		if out.Depth > depthBase {
			return fmt.Errorf("1000 record-less $GENERATE / $INCLUDE lines are read %d calls deep", out.Depth)
		}
		return nil
	})
	c07Probe(kOverlong, func() error {
		for v := 0; v < 4; v++ {
			files := map[string]string{"o.db": overlongLine(v)}
			out, viol := runParser(files, parserCfg{File: "o.db", Origin: "example."}, nil)
			if viol != nil {
				return fmt.Errorf("%s", strings.SplitN(viol.Error(), "\n", 2)[0])
			}
			if out.Err == nil {
				return fmt.Errorf("variant %d: a name of 263 octets (255-octet relative name + origin example.) is accepted: %d records, no error", v, out.N)
			}
		}
		return nil
	})
	c07Probe(kTTLWrap, func() error {
		for _, line := range []string{"a 30500568904944w IN A 10.0.0.1\n", "a 18446744073709551621 IN A 10.0.0.1\n", "$TTL 30500568904944w\na IN A 10.0.0.1\n"} {
			out, viol := runParser(map[string]string{"t.db": line}, parserCfg{File: "t.db", Origin: "example."}, nil)
			if viol != nil {
				return fmt.Errorf("%s", strings.SplitN(viol.Error(), "\n", 2)[0])
			}
			if out.Err == nil {
				return fmt.Errorf("%q is accepted: %v", line, out.First)
			}
		}
		return nil
	})
	c07Probe(kGenQuadratic, func() error {
		files := map[string]string{"g.db": "$GENERATE 1-1 a TXT" + strings.Repeat(" a", 10000) + "\n"}
		_, viol := runParser(files, parserCfg{File: "g.db", Origin: "example."}, nil)
		if viol != nil {
			return fmt.Errorf("%s", strings.SplitN(viol.Error(), "\n", 2)[0])
		}
		return nil
	})
	c07Probe(kGenEOF, func() error {
		files := map[string]string{"g.db": "a.example. 300 A 10.0.0.1\n$GENERATE 0-0"}
		_, viol := runParser(files, parserCfg{File: "g.db", Origin: "example."}, nil)
		if viol != nil {
			return fmt.Errorf("%s", strings.SplitN(viol.Error(), "\n", 2)[0])
		}
		return nil
	})
	// repaired by c430c6a: "$INCLUDE inc )" followed the include and then ended the zone silently
	c07Probe("include-swallows-lexer-error", func() error {
		for _, a := range []bool{true, false} {
			c := dirFaultCase{Directive: 0, Fault: 0, Pos: 2, Allowed: a}
			text, _ := dirFaultText(c)
			if err := evalDirFault(c, text); err != nil {
				return fmt.Errorf("%s", strings.SplitN(err.Error(), "\n", 2)[0])
			}
		}
		return nil
	})
}
