package c07

import (
	"fmt"
	"math"
	"math/big"
	"strings"

	"github.com/miekg/dns"
	"pgregory.net/rapid"

	"verif/harness/pbt"
	zm "verif/harness/zonemodel"
)

// ---------------------------------------------------------------------------------------------
// $GENERATE templates: the text behind the range is lexed once as part of the zone, then handed
// octet by octet to a second lexer through a reader that strips escapes and substitutes the
// iterator. Generated here: templates out of hostile pieces (escapes of every kind, quotes in every
// escape state, quoted newlines, parentheses, long runs of one piece) under small and full ranges,
// and modifiers whose offset lies at the edges of the 31-bit and 64-bit ranges.

// Known findings (round 7).
const (
	// generateReader.ReadByte calls itself once per backslash and once per escaped character.
	kGenEscape = "generate-escape-recursion"
	// `\\"` is a real quote for the zone lexer and an escaped one for the lexer of the expansion:
	// newlines inside such quotes become line ends, one step yields several records.
	kGenRequote = "generate-requoted-newline"
	// the guard "end+offset > 1<<31-1" is computed in int64 and wraps around.
	kGenOffWrap = "generate-offset-wraps"
	// a $GENERATE line that ends inside a quote which is never closed is expanded; the quote state
	// carries over from step to step, so every second step is lexed inside out.
	kGenOpenQuote = "generate-unterminated-quote"
	// C05's finding: the token behind a field is skipped without a look at it. For C07 the quote
	// that is skipped is an unterminated one and the rest of the zone disappears in it.
	kSeparator = "separator-token-unchecked"
)

type tplCase struct {
	Kind   string // "pieces" | "offset"
	Start  int64
	Stop   int64
	Step   int64
	Tpl    string   // pieces: the text behind the range (no final newline)
	Off    int64    // offset: ${Off,Width,Base}
	Width  int      //
	Base   string   //
	Owner  bool     // offset: the number is part of the owner name instead of the TXT string
	Prefix int      // valid lines before
	Suffix bool     // a valid line behind
	Notes  []string // what the generator did (for the reader of a replay file)
}

var (
	tplHeads  = []string{"h$ TXT ", "h$ 60 IN TXT ", "$ TXT ", "h TXT ", "h$ IN TXT ", ""}
	tplPlain  = []string{"x", "abc", "7", " ", "  ", "\t", "$", "$$", "\\$", "${0,3,d}", "${1,0,x}", "${0,2,o}", ".", "-", "a.b", "example.", "TXT", "@"}
	tplEscape = []string{"\\a", "\\\\", "\\\"", "\\.", "\\;", "\\(", "\\)", "\\ ", "\\065", "\\\\\"", "\"", "\\\\\\\"", "\\\\\\\\\"", "\\z\\\\"}
	tplInner  = []string{"x", "a b", " ", ";", "(", ")", "$", "\\\\", "\\a", "\nr$ TXT y", "\n", "\nr$ TXT y\ns$ TXT z", "\n$TTL 5", "; c"}
	tplRunOf  = []string{"\\a", "\\\\", "\\\"", "\\.", "\\a\\\\", "x", "\\$", "\\\\\\a", "\\065", "\\a "}
)

func (c tplCase) steps() int64 {
	if c.Step <= 0 || c.Stop < c.Start {
		return 0
	}
	return (c.Stop-c.Start)/c.Step + 1
}

// escapeChain: the longest run of adjacent pairs "backslash + a character that is neither a
// backslash nor a dollar sign" (the class of kGenEscape: each pair of such a run adds two calls).
func escapeChain(s string) int {
	best, run := 0, 0
	for i := 0; i < len(s); {
		if s[i] == '\\' && i+1 < len(s) && s[i+1] != '\\' && s[i+1] != '$' {
			run++
			best = max(best, run)
			i += 2
			continue
		}
		run = 0
		if s[i] == '\\' {
			i++ // the pair "\\" or "\$"
		}
		i++
	}
	return best
}

const maxEscapeChain = 400

// breakChains puts an "x" behind every maxEscapeChain/2 adjacent escape pairs.
func breakChains(s string) string {
	var sb strings.Builder
	run := 0
	for i := 0; i < len(s); {
		if s[i] == '\\' && i+1 < len(s) && s[i+1] != '\\' && s[i+1] != '$' {
			sb.WriteString(s[i : i+2])
			i += 2
			if run++; run >= maxEscapeChain/2 {
				sb.WriteByte('x')
				run = 0
			}
			continue
		}
		run = 0
		if s[i] == '\\' && i+1 < len(s) {
			sb.WriteByte(s[i])
			i++
		}
		sb.WriteByte(s[i])
		i++
	}
	return sb.String()
}

// requotes: the template has a quote that the zone lexer takes for a real one (an even number of
// backslashes in front of it) and the lexer of the expansion for an escaped one (the reader turns
// every "\\" into "\": an odd number of such pairs is in front of it).
func requotes(tpl string) bool {
	bs := 0
	for i := 0; i < len(tpl); i++ {
		switch tpl[i] {
		case '\\':
			bs++
			continue
		case '"':
			if bs%2 == 0 && (bs/2)%2 == 1 {
				return true
			}
		}
		bs = 0
	}
	return false
}

// afterGenerate is the text of a file behind its first $GENERATE keyword ("" if it has none).
func afterGenerate(raw string) string {
	if g := strings.Index(asciiUpper(raw), "$GENERATE"); g >= 0 {
		return raw[g:]
	}
	if strings.Contains(normLex(raw), "$GENERATE") {
		return raw // the keyword is interleaved with parentheses or carriage returns
	}
	return ""
}

// Over-approximations of the two classes for arbitrary text (mutated, native fuzzing).
func textHasEscapeChain(files map[string]string) bool {
	for _, raw := range files {
		if escapeChain(afterGenerate(raw)) > maxEscapeChain {
			return true
		}
	}
	return false
}

func textRequotesNewline(files map[string]string) bool {
	for _, raw := range files {
		rest := afterGenerate(raw)
		if i := strings.Index(rest, "\\\""); i >= 0 && strings.Contains(rest[i:], "\n") && strings.Count(rest, "\n") > 1 {
			return true
		}
	}
	return false
}

func genTplPieces(t *rapid.T, c *tplCase) {
	var sb strings.Builder
	sb.WriteString(rapid.SampledFrom(tplHeads).Draw(t, "head"))
	inner := func() string {
		var in strings.Builder
		for k := rapid.IntRange(0, 4).Draw(t, "nin"); k > 0; k-- {
			in.WriteString(rapid.SampledFrom(tplInner).Draw(t, "in"))
		}
		return in.String()
	}
	long := false
	for k := rapid.IntRange(1, 8).Draw(t, "npieces"); k > 0; k-- {
		switch rapid.IntRange(0, 9).Draw(t, "pk") {
		case 0, 1:
			sb.WriteString(rapid.SampledFrom(tplPlain).Draw(t, "plain"))
		case 2, 3:
			sb.WriteString(rapid.SampledFrom(tplEscape).Draw(t, "esc"))
		case 4: // a quoted string, possibly with line ends in it
			sb.WriteString("\"" + inner() + "\"")
		case 5: // the same behind an escaped backslash
			q := rapid.SampledFrom([]string{"\\\\\"", "\\\\\\\\\\\\\""}).Draw(t, "rq")
			sb.WriteString(q + inner() + q)
		case 6: // a quoted string that ends behind an escaped backslash
			sb.WriteString("\"" + inner() + "\\\\\"")
		case 7: // parentheses over lines
			sb.WriteString("( " + rapid.SampledFrom(tplPlain).Draw(t, "pp") + "\n " + rapid.SampledFrom(tplPlain).Draw(t, "pp2") + " ; c\n ) ")
		case 8: // a long run of one piece
			if long {
				sb.WriteString(" ")
				break
			}
			long = true
			n := rapid.IntRange(100, 20000).Draw(t, "run")
			if pbt.Thorough() && rapid.IntRange(0, 9).Draw(t, "runbig") == 0 {
				n = rapid.IntRange(20000, 300000).Draw(t, "runn")
			}
			p := rapid.SampledFrom(tplRunOf).Draw(t, "runof")
			sb.WriteString(strings.Repeat(p, n))
			c.Notes = append(c.Notes, fmt.Sprintf("run %q x%d", p, n))
		default:
			sb.WriteString(" ")
		}
	}
	c.Tpl = sb.String()
	// the range: mostly a few steps; the full range only for short templates
	c.Step = rapid.SampledFrom([]int64{1, 1, 2, 7, 1000}).Draw(t, "step")
	c.Start = rapid.SampledFrom([]int64{0, 1, 3, 250, 65530}).Draw(t, "start")
	n := int64(rapid.IntRange(1, 3).Draw(t, "n"))
	if len(c.Tpl) <= 120 && rapid.IntRange(0, 9).Draw(t, "full") == 0 {
		n = rapid.SampledFrom([]int64{21846, 32768, 32769, 65535, 65536}).Draw(t, "nfull")
	}
	c.Stop = c.Start + (n-1)*c.Step + rapid.Int64Range(0, c.Step-1).Draw(t, "rem")

	if pbt.Known(kGenEscape) && escapeChain(c.Tpl) > maxEscapeChain {
		pbt.Excluded(kGenEscape)
		c.Tpl = breakChains(c.Tpl)
		c.Notes = append(c.Notes, "escape chains broken")
	}
	if pbt.Known(kGenRequote) && requotedLineEnd(*c) {
		pbt.Excluded(kGenRequote)
		c.Tpl = strings.ReplaceAll(c.Tpl, "\n", " ")
		if logicalLineLen(c.Tpl+"\nx") > len(c.Tpl)+1 {
			c.Suffix = false
		}
		c.Notes = append(c.Notes, "line ends removed")
	}
	if pbt.Known(kGenOpenQuote) {
		if text, _, _ := c.text(); generateInOpenQuote(text) {
			pbt.Excluded(kGenOpenQuote)
			c.Tpl += " \""
			if text, _, _ := c.text(); generateInOpenQuote(text) {
				c.Tpl = strings.ReplaceAll(c.Tpl, "\"", "x")
			}
			c.Notes = append(c.Notes, "open quote closed")
		}
	}
}

// requotedLineEnd delimits the class of kGenRequote: a quote that changes its meaning between the
// two lexers, and a line end inside the template - one of its own, or that of the following line
// when the directive's line ends inside quotes or parentheses (the template then runs on).
func requotedLineEnd(c tplCase) bool {
	if !requotes(c.Tpl) {
		return false
	}
	return strings.Contains(c.Tpl, "\n") || (c.Suffix && logicalLineLen(c.Tpl+"\nx") > len(c.Tpl)+1)
}

func addOK(a, b int64) (int64, bool) {
	s := a + b
	if (b > 0 && s < a) || (b < 0 && s > a) {
		return 0, false
	}
	return s, true
}

func genTplOffset(t *rapid.T, c *tplCase) {
	const m31 = int64(1<<31 - 1)
	c.Step = rapid.SampledFrom([]int64{1, 1, 2, 1000, 1 << 31, 1 << 62}).Draw(t, "step")
	c.Start = rapid.SampledFrom([]int64{0, 0, 1, 7, m31 - 3, m31 - 1, m31, m31 + 1, 1 << 40, 1 << 62, math.MaxInt64 - 5, math.MaxInt64 - 1, math.MaxInt64}).Draw(t, "start")
	n := int64(rapid.IntRange(1, 4).Draw(t, "n"))
	c.Stop = c.Start
	for i := int64(1); i < n; i++ {
		s, ok := addOK(c.Stop, c.Step)
		if !ok {
			break
		}
		c.Stop = s
	}
	if rem := rapid.Int64Range(0, c.Step-1).Draw(t, "rem"); rem > 0 {
		if s, ok := addOK(c.Stop, min(rem, 3)); ok {
			c.Stop = s
		}
	}
	// offsets: small ones and those that bring the first or the last value to an edge
	cands := []int64{0, 1, -1, 5, 12345, m31, m31 + 1, -m31, math.MaxInt64, math.MaxInt64 - 1, math.MinInt64, math.MinInt64 + 1, -math.MaxInt64}
	for _, edge := range []int64{0, -1, m31, m31 + 1, math.MaxInt64} {
		for _, v := range []int64{c.Start, c.Stop} {
			// edge - v, and one beyond
			if d, ok := addOK(edge, -v); ok && v != math.MinInt64 {
				cands = append(cands, d)
				if d1, ok := addOK(d, 1); ok {
					cands = append(cands, d1)
				}
			}
		}
	}
	c.Off = rapid.SampledFrom(cands).Draw(t, "off")
	c.Width = rapid.SampledFrom([]int{0, 0, 1, 3, 12, 25}).Draw(t, "width")
	if rapid.IntRange(0, 7).Draw(t, "widewidth") == 0 {
		// a width the seven characters of which stand for a megabyte per step: "memory proportional to the
		// input" (the library refuses widths above 255; what is asserted is the bound, not the refusal)
		c.Width = rapid.SampledFrom([]int{255, 256, 300, 4096, 65535, 100000, 1000000}).Draw(t, "wide")
	}
	c.Base = rapid.SampledFrom([]string{"d", "d", "o", "x", "X"}).Draw(t, "base")
	c.Owner = rapid.IntRange(0, 3).Draw(t, "owner") == 0

	if pbt.Known(kGenOffWrap) && offsetWraps(*c) {
		pbt.Excluded(kGenOffWrap)
		c.Off = 0
		c.Notes = append(c.Notes, "offset 0 instead of a wrapping one")
	}
}

// offsetWraps delimits the class of kGenOffWrap: start+offset is representable and stop+offset is
// not (beyond the largest int64).
func offsetWraps(c tplCase) bool {
	_, ok1 := addOK(c.Start, c.Off)
	_, ok2 := addOK(c.Stop, c.Off)
	return ok1 && !ok2 && c.Off > 0
}

func genTpl(t *rapid.T) tplCase {
	c := tplCase{Kind: "pieces", Prefix: rapid.IntRange(0, 2).Draw(t, "np"), Suffix: rapid.Bool().Draw(t, "sfx")}
	if rapid.IntRange(0, 2).Draw(t, "kind") == 0 {
		c.Kind = "offset"
		genTplOffset(t, &c)
	} else {
		genTplPieces(t, &c)
	}
	return c
}

func (c tplCase) template() string {
	if c.Kind != "offset" {
		return c.Tpl
	}
	mod := fmt.Sprintf("${%d,%d,%s}", c.Off, c.Width, c.Base)
	if c.Owner {
		return "h" + mod + " TXT x"
	}
	return "h TXT " + mod
}

func (c tplCase) text() (string, int, int) {
	var sb strings.Builder
	for i := 0; i < c.Prefix; i++ {
		fmt.Fprintf(&sb, "p%d.example. 300 IN A 10.1.1.%d\n", i, i)
	}
	fmt.Fprintf(&sb, "$GENERATE %d-%d/%d %s\n", c.Start, c.Stop, c.Step, c.template())
	ns := 0
	if c.Suffix {
		sb.WriteString("z.example. 300 IN A 10.2.2.2\n")
		ns = 1
	}
	return sb.String(), c.Prefix, ns
}

// refNumber is the number a modifier denotes: value in the given base, zero-padded to width (the
// sign counts), from the definition of the modifier and not from fmt.
func refNumber(v *big.Int, width int, base string) string {
	b := map[string]int{"d": 10, "o": 8, "x": 16, "X": 16}[base]
	mag := new(big.Int).Abs(v).Text(b)
	if base == "X" {
		mag = strings.ToUpper(mag)
	}
	sign := ""
	if v.Sign() < 0 {
		sign = "-"
	}
	for len(sign)+len(mag) < width {
		mag = "0" + mag
	}
	return sign + mag
}

func checkTpl(c tplCase) error {
	if c.Step <= 0 || c.Start < 0 || c.Stop < c.Start || c.Prefix < 0 || c.Prefix > 10 || (c.Kind == "offset" && (c.Width < 0 || c.Width > 1000000 || !strings.Contains("doxX", c.Base) || len(c.Base) != 1)) {
		pbt.Note(nil, false, "invalid-case")
		return nil
	}
	steps := c.steps()
	if steps > zm.MaxGenerateSteps || (steps > 8 && len(c.Tpl) > 4096) {
		pbt.Note(nil, false, "invalid-case")
		return nil
	}
	text, np, ns := c.text()
	tpl := c.template()
	files := map[string]string{"top.db": text}
	cfg := parserCfg{File: "top.db", Origin: "example.", HasDefTTL: true, DefTTL: 5, UseFS: true,
		GenBytes: int(steps) * (len(tpl) + 24*strings.Count(tpl, "$") + 1)}
	out, viol := runParser(files, cfg, nil)
	classes := []string{"tpl:" + c.Kind, fmt.Sprintf("tpl:err=%v", out.Err != nil), "tpl:steps=" + bucket(int(steps))}
	if steps > 20000 {
		classes = append(classes, "tpl:full-range")
	}
	if c.Kind == "pieces" {
		if strings.Contains(c.Tpl, "\n") {
			classes = append(classes, "tpl:line-end-in-template")
		}
		if requotes(c.Tpl) {
			classes = append(classes, "tpl:requoted")
		}
		if n := escapeChain(c.Tpl); n > maxEscapeChain {
			classes = append(classes, "tpl:escape-chain>400")
		} else if n > 0 {
			classes = append(classes, "tpl:escape-pairs")
		}
		if len(c.Tpl) > 10000 {
			classes = append(classes, "tpl:long")
		}
		if out.N-np-ns-strings.Count(c.Tpl, "\n") > int(steps) {
			classes = append(classes, "tpl:more-records-than-steps")
		}
	} else {
		classes = append(classes, fmt.Sprintf("tpl:owner=%v", c.Owner), "tpl:base="+c.Base)
		if c.Width > 255 {
			classes = append(classes, "tpl:width>255")
		}
		if _, ok := addOK(c.Stop, c.Off); !ok {
			classes = append(classes, "tpl:last-value-beyond-int64")
		}
	}
	pbt.Note([]byte(text), true, classes...)
	ctx := func() string {
		t := text
		if len(t) > 600 {
			t = t[:300] + "…(" + fmt.Sprint(len(t)) + " octets)…" + t[len(t)-200:]
		}
		return fmt.Sprintf("%d steps, %d records returned, err=%v, notes %q\n%q", steps, out.N, out.Err, c.Notes, t)
	}
	if viol != nil {
		return pbt.Errf("%v\n%s", viol, ctx())
	}
	// the statement's bound for the one directive of the text: np plain records precede it; every
	// physical line behind its first one is either part of its template (and then yields nothing
	// by itself) or a line of its own (at most one record)
	behind := strings.Count(tpl, "\n") + ns
	if got := out.N - np - behind; got > zm.MaxGenerateSteps {
		return pbt.Errf("one $GENERATE directive yielded at least %d records (limit %d; %d records returned, %d lines before and %d behind the directive's first line)\n%s", got, zm.MaxGenerateSteps, out.N, np, behind, ctx())
	}
	if c.Kind != "offset" {
		return nil
	}
	if c.Width > 255 {
		// no expectation about the records: the resource bounds above are the oracle for this class
		return nil
	}
	// offset: every record that is returned carries the number its step denotes; without an error
	// all steps are there. (A value that the arithmetic of the library cannot hold can therefore
	// only end in an error.)
	if out.Err == nil && out.N != np+int(steps)+ns {
		return pbt.Errf("no error and %d records, want %d + %d steps + %d\n%s", out.N, np, steps, ns, ctx())
	}
	nrec := out.N - np // records of the directive: behind an error nothing else follows
	if out.Err == nil {
		nrec -= ns
	}
	for i := 0; i < int(steps) && i < nrec && np+i < len(out.First); i++ {
		v := new(big.Int).Mul(big.NewInt(int64(i)), big.NewInt(c.Step))
		v.Add(v, big.NewInt(c.Start)).Add(v, big.NewInt(c.Off))
		want := refNumber(v, c.Width, c.Base)
		rr := out.First[np+i]
		var got string
		if c.Owner {
			got = strings.TrimSuffix(strings.TrimPrefix(rr.Header().Name, "h"), ".example.")
		} else if txt, ok := rr.(*dns.TXT); ok && len(txt.Txt) == 1 {
			got = txt.Txt[0]
		} else {
			return pbt.Errf("step %d: unexpected record %v\n%s", i, rr, ctx())
		}
		if got != want {
			return pbt.Errf("step %d (iterator %d + offset %d) yields the number %q, the modifier denotes %q; no error is reported for the step\n%s", i, c.Start+int64(i)*c.Step, c.Off, got, want, ctx())
		}
	}
	return nil
}

// eachTpl: the fixed members of the family (the inputs of the round-7 remarks at a size the
// stack bound sees, and their neighbours), evaluated on every run.
func eachTpl(emit func(tplCase)) {
	if pbt.Known(kGenEscape) {
		pbt.Excluded(kGenEscape)
	} else {
		for _, p := range []string{"\\a", "\\.", "\\\"", "\\a\\\\"} {
			emit(tplCase{Kind: "pieces", Start: 0, Stop: 0, Step: 1, Tpl: "a TXT " + strings.Repeat(p, 20000), Suffix: true})
		}
	}
	for _, p := range []string{"\\\\", "\\$", "$$", "x"} {
		emit(tplCase{Kind: "pieces", Start: 0, Stop: 0, Step: 1, Tpl: "a TXT " + strings.Repeat(p, 20000), Suffix: true})
	}
	if pbt.Known(kGenRequote) {
		pbt.Excluded(kGenRequote)
	} else {
		emit(tplCase{Kind: "pieces", Start: 0, Stop: 65535, Step: 1, Tpl: "foo$ TXT \\\\\"a\nbar$ TXT b\nbaz$ TXT c\\\\\"", Prefix: 1, Suffix: true})
		emit(tplCase{Kind: "pieces", Start: 0, Stop: 65535, Step: 1, Tpl: "foo$ TXT \\\\\"a\nbar$ TXT b\"", Prefix: 1})
	}
	emit(tplCase{Kind: "pieces", Start: 0, Stop: 65535, Step: 1, Tpl: "foo$ TXT \"a\nbar$ TXT b\nbaz$ TXT c\"", Prefix: 1, Suffix: true})
	emit(tplCase{Kind: "pieces", Start: 0, Stop: 65535, Step: 1, Tpl: "foo$ TXT \"abc\\\\\"", Prefix: 1, Suffix: true})
	if pbt.Known(kGenOpenQuote) {
		pbt.Excluded(kGenOpenQuote)
	} else {
		emit(tplCase{Kind: "pieces", Start: 0, Stop: 65535, Step: 1, Tpl: "a$ TXT \"x\nb$ TXT y\nc$ TXT z", Prefix: 1})
		emit(tplCase{Kind: "pieces", Start: 0, Stop: 65535, Step: 1, Tpl: "a$ TXT \"x", Prefix: 1, Suffix: true})
		emit(tplCase{Kind: "pieces", Start: 1, Stop: 3, Step: 1, Tpl: "a$ TXT \"x\nb$ TXT y", Suffix: true})
	}
	if pbt.Known(kGenOffWrap) {
		pbt.Excluded(kGenOffWrap)
	} else {
		emit(tplCase{Kind: "offset", Start: 0, Stop: 1, Step: 1, Off: math.MaxInt64, Base: "d"})
		emit(tplCase{Kind: "offset", Start: 5, Stop: 9, Step: 2, Off: math.MaxInt64 - 8, Base: "x", Owner: true})
	}
	emit(tplCase{Kind: "offset", Start: 0, Stop: 0, Step: 1, Off: math.MaxInt64, Base: "d"})
	// widths above the 255 the library allows: seven characters must not buy a megabyte per step
	for _, w := range []int{256, 300, 65535, 1000000} {
		emit(tplCase{Kind: "offset", Start: 1, Stop: 3, Step: 1, Off: 0, Base: "d", Width: w})
		emit(tplCase{Kind: "offset", Start: 1, Stop: 2, Step: 1, Off: 0, Base: "x", Width: w, Owner: true})
	}
	emit(tplCase{Kind: "offset", Start: 0, Stop: 3, Step: 1, Off: 1<<31 - 4, Base: "d", Width: 12})
	emit(tplCase{Kind: "offset", Start: 0, Stop: 3, Step: 1, Off: 1<<31 - 3, Base: "d"})
	emit(tplCase{Kind: "offset", Start: 4, Stop: 6, Step: 1, Off: -4, Base: "o", Width: 3, Owner: true})
	emit(tplCase{Kind: "offset", Start: 4, Stop: 6, Step: 1, Off: -5, Base: "d"})
}

// ---------------------------------------------------------------------------------------------
// type-fault "quote-glued": an unterminated quote directly behind an RDATA token (no blank in
// front of it), with or without a blank behind it; two records follow. The quote stands where the
// parser of the type expects the separator.

func gluedFaultText(c typeFaultCase) (string, bool) {
	sm, ok := zm.SampleByName(c.Sample)
	if !ok || c.Tok < 0 || c.Tok >= len(sm.Tokens) || c.Var < 0 || c.Var > 1 {
		return "", false
	}
	if c.Var == 1 && c.Tok == len(sm.Tokens)-1 {
		return "", false
	}
	var sb strings.Builder
	sb.WriteString("first.example.org. 300 IN " + sm.Name)
	for i, tok := range sm.Tokens {
		if i == 0 || !(c.Var == 1 && i == c.Tok+1) {
			sb.WriteByte(' ')
		}
		sb.WriteString(tok)
		if i == c.Tok {
			sb.WriteByte('"')
		}
	}
	return sb.String() + "\nnext.example.org. 600 IN A 192.0.2.1\nlast.example.org. 600 IN A 192.0.2.2\n", true
}

// gluedSwallowed delimits the class of kSeparator for C07: the types whose RDATA
// parser skips the token behind the given field without looking at it on the pinned tree (the
// quote is taken for the blank, the quoted rest of the zone for the next field). Keys:
// sample/token index/variant.
var gluedSwallowed = func() map[string]bool {
	m := map[string]bool{}
	for _, k := range []string{"MINFO/0", "MX/0", "RP/0", "AFSDB/0", "RT/0", "SIG/6", "PX/1", "SRV/2", "KX/0", "SSHFP/1", "IPSECKEY/3", "RRSIG/6", "NSEC3/3", "NSEC3PARAM/2",
		"TALINK/0", "SVCB/0", "LP/0"} {
		m[k+"/0"], m[k+"/1"] = true, true
	}
	// with a blank behind the quote only / without one only
	m["HTTPS/0/0"], m["NID/0/1"], m["L64/0/1"] = true, true, true
	return m
}()

func eachGlued(emit func(typeFaultCase)) {
	for _, sm := range zm.Samples {
		for ti, tok := range sm.Tokens {
			if tok == "" || tok[0] == '"' {
				continue
			}
			for v := 0; v < 2; v++ {
				if v == 1 && ti == len(sm.Tokens)-1 {
					continue
				}
				if pbt.Known(kSeparator) && gluedSwallowed[fmt.Sprintf("%s/%d/%d", sm.Name, ti, v)] {
					pbt.Excluded(kSeparator)
					continue
				}
				emit(typeFaultCase{Sample: sm.Name, Fault: "quote-glued", Tok: ti, Var: v})
			}
		}
	}
}

func init() {
	c07Probe(kGenEscape, func() error {
		// the breaker's input has 2 500 000 pairs (5 MB) and ends the process ("fatal error: stack
		// overflow", 1 GB of stack); the same line with 20 000 pairs (40 KB) shows the growth
		c := tplCase{Kind: "pieces", Start: 0, Stop: 0, Step: 1, Tpl: "a TXT " + strings.Repeat("\\a", 20000)}
		text, _, _ := c.text()
		_, viol := runParser(map[string]string{"top.db": text}, parserCfg{File: "top.db", Origin: "example."}, nil)
		if viol != nil {
			return fmt.Errorf("%s", strings.SplitN(viol.Error(), "\n", 2)[0])
		}
		return nil
	})
	c07Probe(kGenRequote, func() error {
		// the breaker's input with the full range
		c := tplCase{Kind: "pieces", Start: 0, Stop: 65535, Step: 1, Tpl: "foo$ TXT \\\\\"a\nbar$ TXT b\nbaz$ TXT c\\\\\""}
		text, _, _ := c.text()
		out, viol := runParser(map[string]string{"top.db": text}, parserCfg{File: "top.db", Origin: "example.", GenBytes: 65536 * 64}, nil)
		if viol != nil {
			return fmt.Errorf("%s", strings.SplitN(viol.Error(), "\n", 2)[0])
		}
		if out.N > zm.MaxGenerateSteps {
			return fmt.Errorf("one $GENERATE directive yielded %d records (limit %d), err=%v", out.N, zm.MaxGenerateSteps, out.Err)
		}
		return nil
	})
	c07Probe(kGenOpenQuote, func() error {
		text := "$GENERATE 0-65535 a$ TXT \"x\nb$ TXT y\nc$ TXT z\n"
		out, viol := runParser(map[string]string{"top.db": text}, parserCfg{File: "top.db", Origin: "example.", HasDefTTL: true, DefTTL: 5}, nil)
		if viol != nil {
			return fmt.Errorf("%s", strings.SplitN(viol.Error(), "\n", 2)[0])
		}
		if out.N > zm.MaxGenerateSteps+2 {
			return fmt.Errorf("one $GENERATE directive (whose line ends inside a quote that is never closed) yielded %d records, err=%v", out.N, out.Err)
		}
		return nil
	})
	c07Probe(kGenOffWrap, func() error {
		out, viol := runParser(map[string]string{"top.db": "$GENERATE 0-1 a TXT ${9223372036854775807,0,d}\n"}, parserCfg{File: "top.db", Origin: "example."}, nil)
		if viol != nil {
			return fmt.Errorf("%s", strings.SplitN(viol.Error(), "\n", 2)[0])
		}
		if out.Err == nil {
			return fmt.Errorf("offset 9223372036854775807 with the range 0-1 is accepted: %v", out.First)
		}
		return nil
	})
	c07Probe(kSeparator, func() error {
		text := "foo MX 10\"mail.\nbar A 1.2.3.4\n"
		out, viol := runParser(map[string]string{"f.db": text}, parserCfg{File: "f.db", Origin: "example.", HasDefTTL: true, DefTTL: 3600}, nil)
		if viol != nil {
			return fmt.Errorf("%s", strings.SplitN(viol.Error(), "\n", 2)[0])
		}
		if out.Err == nil {
			return fmt.Errorf("%q: the quote is never closed, no error is reported and the second line is lost: %v", text, out.First)
		}
		return nil
	})
}
