package c07

import (
	"encoding/json"
	"errors"
	"fmt"
	"os"
	"path/filepath"
	"runtime"
	"strings"
	"testing"
	"time"

	"github.com/miekg/dns"

	"verif/harness/pbt"
)

// writeFuzzViolation leaves a self-contained reproduction where the driver looks for it.
func writeFuzzViolation(sub string, c any, err error) {
	dir := os.Getenv("VERIF_OUT")
	if dir == "" {
		return
	}
	b, _ := json.Marshal(c)
	out, _ := json.MarshalIndent(map[string]any{"property": "C07", "sub": sub, "error": err.Error(), "case": json.RawMessage(b)}, "", " ")
	os.MkdirAll(dir, 0o755)
	os.WriteFile(filepath.Join(dir, "viol."+sub+".json"), out, 0o644)
}

// fuzzCase is what FuzzZoneParser derives from its raw input; it is also a replayable case of
// the "fuzz-zone" sub-check.
func fuzzCase(data []byte, bits uint8) hostileCase {
	c := hostileCase{Files: extraFiles(), Mutations: []string{"native-fuzz"}}
	c.Cfg = parserCfg{File: "fuzz.db"}
	c.Files["fuzz.db"] = string(data)
	switch bits & 3 {
	case 0:
		c.Cfg.Allowed, c.Cfg.UseFS = true, true
	case 1:
		c.Cfg.Allowed, c.Cfg.UseFS = false, true
	default:
		c.Cfg.Allowed, c.Cfg.UseFS = false, false
	}
	if bits&4 != 0 {
		c.Cfg.HasDefTTL, c.Cfg.DefTTL = true, 5
	}
	switch (bits >> 3) & 3 {
	case 0:
		c.Cfg.Origin = "example."
	case 1:
		c.Cfg.Origin = ""
	case 2:
		c.Cfg.Origin = "."
	default:
		c.Cfg.Origin, c.Cfg.BadOrigin = "a..b", true
	}
	return c
}

// sanitize: the sub-parser of a $GENERATE does not inherit the include FS, so an $INCLUDE that
// comes out of an expansion would reach os.Open when includes are allowed (observed in the design
// phase; outside the property). Such inputs run with includes disabled.
func sanitize(c *hostileCase) {
	if !c.Cfg.Allowed {
		return
	}
	for _, txt := range c.Files {
		u := normLex(txt)
		if strings.Contains(u, "GENERATE") && strings.Contains(u, "INCLUDE") {
			c.Cfg.Allowed = false
			return
		}
	}
}

func FuzzZoneParser(f *testing.F) {
	seeds := []string{
		"example.org. 3600 IN MX 10 mail.example.org.\n",
		"$ORIGIN example.org.\n$TTL 1h30m\n@ IN SOA ns hostmaster ( 1 ; serial\n 2h ; refresh\n\t3 4 5 ) ; end\n   NS ns\n",
		"$GENERATE 1-7/3 host-${0,3,d}-$ 60 IN CNAME t${-1,0,x}.target.\n",
		"$INCLUDE self.db\nz A 9.9.9.9\n",
		"$INCLUDE chain1.db sub\n",
		"a 5 IN TXT \"x\" ( \"y\" ; c\n )",
		"t 5 IN TXT ( \"a;b\" \r\n \"c(d)\" ; cmt ( with paren\n \"e f\" )\r\n",
		"$GENERATE 1-2 $$GENERATE 1-2 a$ A 1.1.1.1\n",
		"a.example. 5 CLASS1 TYPE1 \\# 4 01020304\n",
		"l 5 IN LOC 42 21 54 N 71 06 18 W -24m 30m\n",
		"s 5 IN SVCB 1 . alpn=h2 port=8443 ipv4hint=192.0.2.1\n",
		"n 5 IN NSEC3 1 1 12 aabbccdd 2vptu5timamqttgl4luu9kg21e0aor3s A RRSIG\n",
		"k 5 IN IPSECKEY 10 1 2 192.0.2.38 AQNRU3mG7TVTO2BkR47usntb102uFJtugbo6BSGvgqt4AQ==\n",
	}
	for i, s := range seeds {
		f.Add([]byte(s), uint8(i))
	}
	f.Fuzz(func(t *testing.T, data []byte, bits uint8) {
		if len(data) > 1<<20 {
			return
		}
		c := fuzzCase(data, bits)
		sanitize(&c)
		if pbt.Known(kGenErrRecord) && riskyModifier(c.Files) {
			return
		}
		if pbt.Known(kGenEOF) && endsInBareGenerate(c.Files) {
			return
		}
		if pbt.Known(kGenQuadratic) && longGenerate(c.Files) {
			return
		}
		if generateExpansion(string(data)) > 4*maxExpansion {
			return // cost cap: minutes per input
		}
		if pbt.Known(kGenEscape) && textHasEscapeChain(c.Files) {
			return
		}
		if pbt.Known(kGenRequote) && textRequotesNewline(c.Files) {
			return
		}
		if pbt.Known(kGenOpenQuote) && generateInOpenQuote(string(data)) {
			return
		}
		_, viol := runParser(c.Files, c.Cfg, exerciseRecord)
		if viol != nil {
			writeFuzzViolation("fuzz-zone", c, viol)
			t.Fatalf("C07/fuzz-zone: %v\n%s", viol, show(map[string]string{"fuzz.db": string(data)}, c.Cfg))
		}
	})
}

type newRRCase struct{ Text string }

// checkNewRR is the oracle of FuzzNewRR (also registered as the replayable sub "fuzz-newrr").
func checkNewRR(c newRRCase) error {
	if strings.Contains(normLex(c.Text), "INCLUDE") {
		return nil // NewRR is documented to allow includes from the real file system
	}
	if pbt.Known(kGenErrRecord) && riskyModifier(map[string]string{"": c.Text}) {
		return nil
	}
	if pbt.Known(kGenEOF) && endsInBareGenerate(map[string]string{"": c.Text + "\n"}) {
		return nil
	}
	if pbt.Known(kGenQuadratic) && longGenerate(map[string]string{"": c.Text}) {
		return nil
	}
	if pbt.Known(kGenEscape) && textHasEscapeChain(map[string]string{"": c.Text}) {
		return nil
	}
	if generateExpansion(c.Text) > 4*maxExpansion {
		return nil // cost cap: minutes per input
	}
	err, resource := newRROnce(c)
	// the allocation counter is that of the whole process: a reading above the bound is measured
	// again (same input) after a garbage collection and counts only if it shows every time
	for i := 0; i < confirmRuns && err != nil && resource; i++ {
		runtime.GC()
		err, resource = newRROnce(c)
	}
	return err
}

// newRROnce is one NewRR call under the oracle; resource tells that the violation is a reading of
// the process-wide allocation counter above its bound.
func newRROnce(c newRRCase) (error, bool) {
	type res struct {
		rr    dns.RR
		err   error
		alloc uint64
		stack int64
		pan   error
	}
	done := make(chan res, 1)
	timer := time.NewTimer(watchdog)
	stall := newStallWatch(watchdog)
	ticker := heapTicker
	if ticker == nil {
		heapTicker = time.NewTicker(250 * time.Millisecond)
		ticker = heapTicker
	}
	go func() {
		var r res
		defer func() {
			if x := recover(); x != nil {
				buf := make([]byte, 1<<14)
				buf = buf[:runtime.Stack(buf, false)]
				r.pan = fmt.Errorf("panic: %v\n%s", x, buf)
			}
			done <- r
		}()
		var ms1, ms2 runtime.MemStats
		runtime.ReadMemStats(&ms1)
		r.rr, r.err = dns.NewRR(c.Text)
		if r.rr != nil {
			exerciseRecord(r.rr)
		}
		runtime.ReadMemStats(&ms2)
		r.alloc = ms2.TotalAlloc - ms1.TotalAlloc
		r.stack = int64(ms2.StackInuse) - int64(ms1.StackInuse)
	}()
	// (nothing that allocates runs on this goroutine while the call is measured)
	var r res
	extended := false
wait:
	select {
	case r = <-done:
	case <-ticker.C:
		// NewRR reads a string: nothing it does is visible from outside, so the stall watch is the
		// plain CPU budget (a quarter of the watchdog period)
		if used, yes := stall.stalled(); yes {
			hangSeen = true
			buf := make([]byte, 1<<20)
			buf = buf[:runtime.Stack(buf, true)]
			return fmt.Errorf("NewRR did not finish: it has used %v of CPU time (budget %v; wall-clock limit %v):\n%s", used.Round(100*time.Millisecond), stall.budget, time.Duration(confirmRuns+1)*watchdog, buf), false
		}
		goto wait
	case <-timer.C:
		// slow or hung? the same call gets three more periods
		if !extended {
			extended = true
			timer.Reset(time.Duration(confirmRuns) * watchdog)
			goto wait
		}
		hangSeen = true
		buf := make([]byte, 1<<20)
		buf = buf[:runtime.Stack(buf, true)]
		return fmt.Errorf("NewRR did not finish within %v:\n%s", time.Duration(confirmRuns+1)*watchdog, buf), false
	}
	timer.Stop()
	if r.pan != nil {
		return r.pan, false
	}
	if r.rr != nil && r.err != nil {
		return fmt.Errorf("NewRR returned a record and the error %v", r.err), false
	}
	if r.err != nil {
		var pe *dns.ParseError
		if !errors.As(r.err, &pe) {
			return fmt.Errorf("NewRR error is a %T, not a *dns.ParseError: %v", r.err, r.err), false
		}
		if !lineRe.MatchString(r.err.Error()) {
			return fmt.Errorf("NewRR error carries no position: %q", r.err), false
		}
	}
	bound := uint64(allocK0) + uint64(allocC)*uint64(len(c.Text)) + 2*(uint64(allocR0)+uint64(allocRL)*uint64(min(len(c.Text), 4096)))
	if r.alloc > bound {
		return fmt.Errorf("NewRR allocated %d octets for %d octets of input (bound %d; measured %d times)", r.alloc, len(c.Text), bound, confirmRuns+1), true
	}
	if r.stack > stackBound {
		return fmt.Errorf("the goroutine stacks grew by %d octets during NewRR of %d octets (bound %d; measured %d times): the parser recurses with its input", r.stack, len(c.Text), stackBound, confirmRuns+1), true
	}
	return nil, false
}

func FuzzNewRR(f *testing.F) {
	for _, s := range []string{
		"example.org. 3600 IN MX 10 mail.example.org.",
		"$GENERATE 1-3 a$ A 1.2.3.$",
		"a 5 IN TXT \"x\" ( \"y\" ; c\n )",
		"$ORIGIN example.\n$TTL 5\nwww A 1.2.3.4",
		"x. 5 IN LOC 42 21 54 N 71 06 18 W -24m 30m",
		"x. 5 IN SVCB 1 . alpn=h2 key65535=\"a\\\"b\"",
		"x. 5 IN APL 1:192.168.32.0/21 !1:192.168.38.0/28",
		"x. 5 IN HIP 2 200100107B1A74DF365639CC39F1D578 AwEAAbdx rvs.example.",
		"x. 5 IN TYPE731 \\# 6 abcd ( ef 01 23 45 )",
		"x. 5 IN RRSIG A 8 3 86400 20240201000000 20240101000000 2642 example. AQID",
		"x. 5 IN CSYNC 66 3 A NS AAAA",
		"x. IN 5 NAPTR 100 10 \"u\" \"E2U+sip\" \"!^.*$!sip:info@example.com!\" .",
	} {
		f.Add(s)
	}
	f.Fuzz(func(t *testing.T, s string) {
		if len(s) > 1<<20 {
			return
		}
		if err := checkNewRR(newRRCase{Text: s}); err != nil {
			writeFuzzViolation("fuzz-newrr", newRRCase{Text: s}, err)
			t.Fatalf("C07/fuzz-newrr: %v\ninput %q", err, s)
		}
	})
}
