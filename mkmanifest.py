#!/usr/bin/env python3
"""Writes MANIFEST.json from vconfig.py (single source of truth for commands and level texts)."""
import json, os
from vconfig import PROPS

ROOT = os.path.dirname(os.path.abspath(__file__))
BASELINE_OFF = ("cd /repo && env -u GOSUMDB GOFLAGS=-mod=mod GOPROXY=off GOTOOLCHAIN=auto "
                "go test -json -vet=off -count=1 -timeout 25m ./...")
checks = []
for pid in sorted(PROPS):
    c = PROPS[pid]
    checks.append(dict(
        property_id=pid,
        quick_cmd="/verif/vcheck %s --tier quick" % pid,
        thorough_cmd="/verif/vcheck %s --tier thorough" % pid,
        evidence_file="/verif/evidence/%s.json" % pid,
        replay_cmd_template="/verif/vcheck %s --replay {path}" % pid,
        engine="vcheck",
        level_claimed=dict(category=c["level"], text=c["text"], design_ref=c.get("design_ref", "DESIGN.md §3")),
        level_note=c["level_note"],
        technique=c["technique"],
    ))
all_ids = [json.loads(l)["id"] for l in open(os.path.join(ROOT, "properties.jsonl"))]
na = []
for pid in all_ids:
    if pid not in PROPS:
        na.append(dict(property_id=pid, reason="check not built yet (work in progress; every listed property is amenable to generated-input search, see DESIGN.md §5)"))
hooks_commits = []
hc = os.path.join(ROOT, "HOOK_COMMITS.txt")
if os.path.exists(hc):
    hooks_commits = [l.split()[0] for l in open(hc) if l.strip() and not l.startswith("#")]
m = dict(
    version=1,
    setup_cmd="/verif/vcheck --setup",
    hooks=dict(guard="verif", enable="go test -tags verif (every check binary is built with the tag from /repo's working tree through a replace directive)",
               baseline_off_cmd=BASELINE_OFF, source_commits=hooks_commits, add_only=True),
    engines=[dict(name="vcheck", path="/verif/vcheck", serves_properties=sorted(PROPS),
                  kind_free_text="python driver around Go test binaries: pgregory.net/rapid generators + independent reference models (harness/wiremodel, refcrypto, zonemodel, memnet) + native go fuzz targets in the thorough tier")],
    checks=checks,
    not_applicable=na,
    notes="All checks are property-based tests / fuzz targets with explicit oracles; see DESIGN.md. KNOWN_FINDINGS.txt lists recorded defects (known:) and repaired ones (fixed:).",
)
with open(os.path.join(ROOT, "MANIFEST.json"), "w") as f:
    json.dump(m, f, indent=1)
    f.write("\n")
print("MANIFEST.json: %d checks, %d not_applicable" % (len(checks), len(na)))
