"""Sensitivity mutants (DESIGN.md Appendix B): realistic single-site changes to /repo that compile and keep the
repository's tests green. Each is applied through `go build -overlay`, never written into /repo."""
MUTANTS = []

def mut(id, prop, file, old, new, note="", count=1):
    MUTANTS.append(dict(id=id, prop=prop, note=note, edits=[dict(file=file, old=old, new=new, count=count)]))

def mut2(id, prop, edits, note=""):
    MUTANTS.append(dict(id=id, prop=prop, note=note, edits=[dict(file=f, old=o, new=n) for f, o, n in edits]))

# ---- C19
mut("c19-nextlabel-parity", "C19", "labels.go", "		if (j-i)%2 == 0 {\n			continue\n		}\n\n		return i + 1, false", "		if (j-i)%2 == 0 || j == i-3 {\n			continue\n		}\n\n		return i + 1, false", "NextLabel treats a dot after exactly two backslashes as escaped")
mut("c19-equal-nocase-Z", "C19", "labels.go", "if ai >= 'A' && ai <= 'Z' {", "if ai >= 'A' && ai < 'Z' {", "case folding misses 'Z' on one side")
mut("c19-prevlabel-off", "C19", "labels.go", "		n--\n		if n == 0 {\n			return l + 1, false\n		}", "		n--\n		if n == 0 {\n			return l, false\n		}", "PrevLabel returns the dot instead of the label start")
mut("c19-trim-short", "C19", "dnsutil/util.go", "return s[:slabels[len(slabels)-m]-1]", "return s[:slabels[len(slabels)-m]-2]", "TrimDomainName slices one octet short")

# ---- C01
mut2("c01-srv-weight-port-swapped", "C01", [
    ("zmsg.go", "	off, err = packUint16(rr.Weight, msg, off)\n	if err != nil {\n		return off, err\n	}\n	off, err = packUint16(rr.Port, msg, off)", "	off, err = packUint16(rr.Port, msg, off)\n	if err != nil {\n		return off, err\n	}\n	off, err = packUint16(rr.Weight, msg, off)"),
    ("zmsg.go", "	rr.Weight, off, err = unpackUint16(msg, off)\n	if err != nil {\n		return off, fmt.Errorf(\"SRV.Weight: %w\", err)\n	}\n	if off == len(msg) {\n		return off, nil\n	}\n	rr.Port, off, err = unpackUint16(msg, off)", "	rr.Port, off, err = unpackUint16(msg, off)\n	if err != nil {\n		return off, fmt.Errorf(\"SRV.Weight: %w\", err)\n	}\n	if off == len(msg) {\n		return off, nil\n	}\n	rr.Weight, off, err = unpackUint16(msg, off)"),
], "SRV weight and port swapped consistently in pack and unpack (self-consistent, invisible to Pack/Unpack round trips)")
mut2("c01-uint48-top-octet", "C01", [
    ("msg_helpers.go", "	msg[off] = byte(i >> 40)\n", "	msg[off] = 0\n"),
], "uint48 packer drops the top octet")
mut2("c01-ad-cd-swapped", "C01", [
    ("msg.go", "	dns.AuthenticatedData = dh.Bits&_AD != 0\n	dns.CheckingDisabled = dh.Bits&_CD != 0", "	dns.AuthenticatedData = dh.Bits&_CD != 0\n	dns.CheckingDisabled = dh.Bits&_AD != 0"),
    ("msg.go", "	if dns.AuthenticatedData {\n		dh.Bits |= _AD\n	}\n	if dns.CheckingDisabled {\n		dh.Bits |= _CD\n	}", "	if dns.AuthenticatedData {\n		dh.Bits |= _CD\n	}\n	if dns.CheckingDisabled {\n		dh.Bits |= _AD\n	}"),
], "AD and CD header bits swapped consistently")
mut("c01-extrcode-shift", "C01", "edns.go", "rr.Hdr.Ttl = rr.Hdr.Ttl&0x00FFFFFF | uint32(v>>4)<<24", "rr.Hdr.Ttl = rr.Hdr.Ttl&0x00FFFFFF | uint32(v>>4&0x7F)<<24", "extended RCODE loses its top bit on pack")
mut("c01-nsec3-salt-len", "C01", "msg_helpers.go", "		if length > 32 {\n			return nsec, len(msg), &Error{err: \"NSEC(3) block too long in type bitmap\"}", "		if length > 31 {\n			return nsec, len(msg), &Error{err: \"NSEC(3) block too long in type bitmap\"}", "type bitmap window of 32 octets rejected")
mut("c01-svcb-mandatory-order", "C01", "svcb.go", "		binary.BigEndian.PutUint16(b[2*i:], uint16(e))\n	}\n	return b, nil\n}\n\nfunc (s *SVCBMandatory) unpack", "		binary.LittleEndian.PutUint16(b[2*i:], uint16(e))\n	}\n	return b, nil\n}\n\nfunc (s *SVCBMandatory) unpack", "SVCB mandatory keys written little endian")
mut("c01-edns-ul-keylease", "C01", "edns.go", "		binary.BigEndian.PutUint32(b[4:], e.KeyLease)\n	}\n	binary.BigEndian.PutUint32(b, e.Lease)", "		binary.BigEndian.PutUint32(b[4:], e.Lease)\n	}\n	binary.BigEndian.PutUint32(b, e.Lease)", "EDNS0 UL key lease overwritten by lease")

# ---- C04
mut2("c04-compression-key-lowercase", "C04", [
    ("msg.go", "func (m compressionMap) find(s string) (int, bool) {", "func (m compressionMap) find(s string) (int, bool) {\n	s = strings.ToLower(s)"),
    ("msg.go", "func (m compressionMap) insert(s string, pos int) {", "func (m compressionMap) insert(s string, pos int) {\n	s = strings.ToLower(s)"),
], "compression map keyed case-insensitively: Example. is emitted as a pointer to example. (still decodes, case lost)")
mut("c04-offset-limit-le", "C04", "msg.go", "				} else if off < maxCompressionOffset {", "				} else if off <= maxCompressionOffset {", "a name starting exactly at offset 16384 becomes a pointer target")
mut("c04-srv-target-compressed", "C04", "zmsg.go", "	off, err = packUint16(rr.Port, msg, off)\n	if err != nil {\n		return off, err\n	}\n	off, err = packDomainName(rr.Target, msg, off, compression, false)", "	off, err = packUint16(rr.Port, msg, off)\n	if err != nil {\n		return off, err\n	}\n	off, err = packDomainName(rr.Target, msg, off, compression, compress)", "SRV target compressed on output (RFC 3597 forbids)")
mut("c04-compbegin-ignores-escapes", "C04", "msg.go", "			compBegin = begin + compOff", "			compBegin = begin", "compression key offset ignores escape lengths")

# ---- C08
mut("c08-srv-len-forgets-port", "C08", "ztypes.go", "	l += 2 // Weight\n	l += 2 // Port\n	l += domainNameLen(rr.Target", "	l += 2 // Weight\n	l += domainNameLen(rr.Target", "SRV.len forgets the port")
mut("c08-escaped-name-len", "C08", "msg.go", "	if escaped {\n		return escapedNameLen(s) + 1\n	}", "	if escaped {\n		return escapedNameLen(s)\n	}", "escaped name length one short")
mut("c08-packlen-no-plus-one", "C08", "msg.go", "	if packLen := uncompressedLen + 1; len(msg) < packLen {", "	if packLen := uncompressedLen; len(msg) < packLen {", "pack buffer sized without the spare octet")
mut("c08-bitmap-last-window", "C08", "msg_helpers.go", "		lastwindow, lastlength = window, length\n	}\n	l += int(lastlength) + 2\n	return l", "		lastwindow, lastlength = window, length\n	}\n	l += int(lastlength) + 1\n	return l", "typeBitMapLen forgets one header octet of the last window")
mut("c08-len-search-limit", "C08", "msg.go", "		if msgOff+off < maxCompressionOffset {", "		if msgOff+off <= maxCompressionOffset {", "length search inserts a name at offset 16384 that the packer does not")
mut("c08-mx-len-compress", "C08", "ztypes.go", "	l += domainNameLen(rr.Mx, off+l, compression, true)", "	l += domainNameLen(rr.Mx, off+l, compression, false)", "MX length computed as if the exchange were never compressed (over-estimate: exactness clause)")

# ---- C09
mut("c09-loop-ge", "C09", "msg_truncate.go", "		if l > size {\n			// Return size", "		if l >= size {\n			// Return size", "record that fits exactly is dropped (maximality)")
mut("c09-opt-not-subtracted", "C09", "msg_truncate.go", "		size -= Len(edns0)", "		size -= 0", "OPT length not subtracted from the budget")
mut("c09-tc-ignores-extra", "C09", "msg_truncate.go", "	dns.Truncated = dns.Truncated || len(dns.Answer) > numAnswer ||\n		len(dns.Ns) > numNS || len(dns.Extra) > numExtra", "	dns.Truncated = dns.Truncated || len(dns.Answer) > numAnswer ||\n		len(dns.Ns) > numNS", "TC ignores records dropped from the additional section")
mut("c09-return-l-on-overflow", "C09", "msg_truncate.go", "			return size, i\n", "			return l - r.len(l, nil), i\n", "after a cut later sections may still receive records")
mut("c09-floor-511", "C09", "msg_truncate.go", "	if size < MinMsgSize {\n		size = MinMsgSize\n	}", "	if size < MinMsgSize {\n		size = MinMsgSize - 1\n	}", "size floor is 511")
mut("c09-tc-always-on-compress", "C09", "msg_truncate.go", "	dns.Compress = true\n\n	edns0 := dns.popEdns0()", "	dns.Compress = true\n	dns.Truncated = true\n\n	edns0 := dns.popEdns0()", "TC set whenever compression is needed even if nothing is dropped")

# ---- C03
mut("c03-unpack-budget", "C03", "msg.go", "			if budget <= 0 {\n				return \"\", lenmsg, ErrLongDomain", "			if budget < 0 {\n				return \"\", lenmsg, ErrLongDomain", "unpacker accepts a 256-octet name")
mut("c03-unpack-budget-strict", "C03", "msg.go", "			if budget <= 0 {\n				return \"\", lenmsg, ErrLongDomain", "			if budget <= 1 {\n				return \"\", lenmsg, ErrLongDomain", "unpacker rejects a valid 255-octet name")
mut("c03-pack-label-64", "C03", "msg.go", "			labelLen := i - begin\n			if labelLen >= 1<<6 { // top two bits of length must be clear\n				return len(msg), ErrRdata", "			labelLen := i - begin\n			if labelLen > 1<<6 { // top two bits of length must be clear\n				return len(msg), ErrRdata", "packer accepts a 64-octet label (emits 0x40 length octet)")
mut("c03-isdomainname-label-64", "C03", "defaults.go", "			if labelLen >= 1<<6 { // top two bits of length must be clear\n				return labels, false", "			if labelLen > 1<<6 { // top two bits of length must be clear\n				return labels, false", "IsDomainName accepts a 64-octet label")
mut("c03-special-set", "C03", "types.go", "	case '.', ' ', '\\'', '@', ';', '(', ')', '\"', '\\\\':\n		return true", "	case ' ', '\\'', '@', ';', '(', ')', '\"', '\\\\':\n		return true", "a dot inside a label is no longer escaped on output")
mut("c03-escapebyte-large", "C03", "types.go", "	b -= '~' + 1\n", "	b -= '~'\n", "\\DDD table index off by one for octets above 0x7e")
mut("c03-isfqdn-parity", "C03", "defaults.go", "	return (len(s)-1-i)%2 == 0\n}", "	return (len(s)-1-i)%2 != 0\n}", "IsFqdn parity of trailing backslashes inverted")
mut("c03-isdomainname-budget", "C03", "defaults.go", "	const lenmsg = maxDomainNameWireOctets - 1 // the root label takes the last octet", "	const lenmsg = maxDomainNameWireOctets", "IsDomainName accepts 256 octets again")

# ---- C16
mut("c16-a-copy-shares", "C16", "ztypes.go", "	return &A{rr.Hdr, cloneSlice(rr.A)}", "	return &A{rr.Hdr, rr.A}", "A.copy shares the address slice")
mut("c16-unpack-a-aliases", "C16", "msg_helpers.go", "	return cloneSlice(msg[off : off+net.IPv4len]), off + net.IPv4len, nil", "	return msg[off : off+net.IPv4len : off+net.IPv4len], off + net.IPv4len, nil", "unpacked A address is a sub-slice of the message buffer")
mut("c16-rawsig-canonicalises-original", "C16", "dnssec.go", "		r1 := r.copy()\n		h := r1.Header()", "		r1 := r\n		h := r1.Header()", "signature canonicalisation (TTL, lower-casing) applied to the caller's records")
mut("c16-svcb-ipv4hint-unpack", "C16", "svcb.go", "	b = cloneSlice(b)\n	x := make([]net.IP, 0, len(b)/4)", "	x := make([]net.IP, 0, len(b)/4)", "ipv4hint addresses alias the message buffer")
mut("c16-nsec-copy-shares", "C16", "ztypes.go", "	return &NSEC{rr.Hdr, rr.NextDomain, cloneSlice(rr.TypeBitMap)}", "	return &NSEC{rr.Hdr, rr.NextDomain, rr.TypeBitMap}", "NSEC.copy shares the type bitmap")
mut("c16-svcb-sort-in-place", "C16", "msg_helpers.go", "	pairs = cloneSlice(pairs)\n	sort.Slice(pairs, func(i, j int) bool {\n		return pairs[i].Key() < pairs[j].Key()", "	sort.Slice(pairs, func(i, j int) bool {\n		return pairs[i].Key() < pairs[j].Key()", "packing SVCB sorts the caller's parameter slice in place")
mut("c16-padding-unpack", "C16", "edns.go", "func (e *EDNS0_PADDING) unpack(b []byte) error { e.Padding = cloneSlice(b); return nil }", "func (e *EDNS0_PADDING) unpack(b []byte) error { e.Padding = b; return nil }", "EDNS0 padding aliases the message buffer")
mut("c16-msg-copy-question", "C16", "msg.go", "	if len(dns.Question) > 0 {\n		// TODO(miek): Question is an immutable value, ok to do a shallow-copy\n		r1.Question = cloneSlice(dns.Question)\n	}", "	r1.Question = dns.Question", "Msg.CopyTo shares the question slice")

# ---- C20
mut("c20-mx-ignores-preference", "C20", "zduplicate.go", "	if r1.Preference != r2.Preference {\n		return false\n	}\n	if !isDuplicateName(r1.Mx, r2.Mx) {", "	if !isDuplicateName(r1.Mx, r2.Mx) {", "MX comparison ignores the preference")
mut("c20-name-compare-exact", "C20", "duplicate.go", "func isDuplicateName(s1, s2 string) bool { return equal(s1, s2) }", "func isDuplicateName(s1, s2 string) bool { return s1 == s2 }", "names compared case-sensitively")
mut("c20-dedup-keeps-larger-ttl", "C20", "sanitize.go", "			if mrh.Ttl > rh.Ttl {", "			if mrh.Ttl < rh.Ttl {", "Dedup keeps the larger TTL")
mut("c20-header-ignores-class", "C20", "duplicate.go", "	if r1.Class != r2.Class {\n		return false\n	}\n", "", "header comparison ignores the class")
mut("c20-apl-equals-negation", "C20", "types.go", "	return a.Negation == b.Negation &&", "	return (a.Negation == b.Negation || true) &&", "APL prefix comparison ignores negation")
mut("c20-svcb-pairs-length", "C20", "svcb.go", "		if err1 != nil || err2 != nil || !bytes.Equal(b1, b2) {\n			return false", "		if err1 != nil || err2 != nil || len(b1) != len(b2) || bytes.Equal(nil, []byte{1}) {\n			return false", "SVCB parameter values compared by length only")
mut("c20-normalized-lowercases-rdata", "C20", "sanitize.go", "	for i := 0; i < len(b) && ttlEnd == 0; i++ {", "	for i := 0; i < len(b); i++ {", "Dedup key lower-cases the whole record text")
mut("c20-nsec3-ignores-salt", "C20", "zduplicate.go", "	if r1.Salt != r2.Salt {\n		return false\n	}\n	if r1.HashLength != r2.HashLength {", "	if r1.HashLength != r2.HashLength {", "NSEC3 comparison ignores the salt")

# ---- C02
mut("c02-no-pointer-limit", "C02", "msg.go", "			if ptr++; ptr > maxCompressionPointers {", "			if ptr++; ptr > maxCompressionPointers && false {", "pointer-hop limit removed (loops never end while the budget lasts)")
mut("c02-prealloc-from-count", "C02", "msg.go", "	// Don't pre-allocate, l may be under attacker control\n	var dst []RR", "	dst := make([]RR, 0, l)", "record slice pre-allocated from the attacker-controlled count")
mut("c02-opt-no-length-check", "C02", "msg_helpers.go", "		if off+int(optlen) > len(msg) {\n			return nil, len(msg), &Error{err: \"overflow unpacking opt\"}\n		}", "", "EDNS0 option length not checked against the RDATA")
mut("c02-nsec-window-33", "C02", "msg_helpers.go", "		if off+length > len(msg) {\n			return nsec, len(msg), &Error{err: \"overflowing NSEC(3) block in type bitmap\"}\n		}", "", "bitmap window length not checked against the RDATA")
mut("c02-name-budget-removed", "C02", "msg.go", "			if budget <= 0 {\n				return \"\", lenmsg, ErrLongDomain\n			}", "", "255-octet budget removed while following pointers")
mut("c02-svcb-alpn-overflow", "C02", "svcb.go", "		if i+length > len(b) {\n			return errors.New(\"bad svcbalpn: alpn array overflowing\")\n		}", "", "alpn id length not checked")
mut("c02-apl-afdlen", "C02", "msg_helpers.go", "	if off+afdlen > len(msg) {\n		return APLPrefix{}, len(msg), &Error{err: \"overflow unpacking APL address\"}\n	}", "", "APL address length not checked against the RDATA (EQUIVALENT: the over-read makes off != end, so the record is still rejected with bad rdlength)")
mut("c02-string-overflow", "C02", "msg_helpers.go", "	l := int(msg[off])\n	off++\n	if off+l > len(msg) {\n		return \"\", off, &Error{err: \"overflow unpacking txt\"}\n	}\n	var s strings.Builder", "	l := int(msg[off])\n	off++\n	var s strings.Builder", "character-string length not checked")

# ---- C05
mut("c05-txt-quote-not-escaped", "C05", "types.go", "	case b == '\"' || b == '\\\\':\n		s.WriteByte('\\\\')\n		s.WriteByte(b)\n	case b < ' ' || b > '~':\n		s.WriteString(escapeByte(b))\n	default:\n		s.WriteByte(b)\n	}\n}", "	case b == '\\\\':\n		s.WriteByte('\\\\')\n		s.WriteByte(b)\n	case b < ' ' || b > '~':\n		s.WriteString(escapeByte(b))\n	default:\n		s.WriteByte(b)\n	}\n}", "a double quote inside a TXT string is printed unescaped")
mut("c05-rfc3597-no-length-check", "C05", "scan_rr.go", "	if int(rdlength)*2 != len(s) {\n		return &ParseError{err: \"bad RFC3597 Rdata\", lex: l}\n	}\n	rr.Rdata = s", "	if int(rdlength)*2 < len(s) {\n		return &ParseError{err: \"bad RFC3597 Rdata\", lex: l}\n	}\n	rr.Rdata = s", "\\# length not compared with the hex data")
mut("c05-classtoint-offset", "C05", "scan.go", "func classToInt(token string) (uint16, bool) {\n	offset := 5", "func classToInt(token string) (uint16, bool) {\n	offset := 6", "CLASSnnn drops its first digit")
mut("c05-timetostring-format", "C05", "types.go", "	return ti.Format(\"20060102150405\")", "	return ti.Format(\"20060102150504\")", "RRSIG timestamps printed with minutes and seconds swapped")
mut("c05-sprintname-semicolon", "C05", "types.go", "	case '.', ' ', '\\'', '@', ';', '(', ')', '\"', '\\\\':\n		return true", "	case '.', ' ', '\\'', '@', '(', ')', '\"', '\\\\':\n		return true", "semicolon in a name no longer escaped")
mut("c05-svcb-alpn-comma", "C05", "svcb.go", "			case ',':\n				str.WriteString(`\\\\\\044`)", "			case ',':\n				str.WriteString(`,`)", "comma inside an alpn id printed bare")
mut("c05-nsec3-salt-dash", "C05", "types.go", "func saltToString(s string) string {\n	if s == \"\" {\n		return \"-\"\n	}", "func saltToString(s string) string {\n	if s == \"\" {\n		return \"\"\n	}", "empty NSEC3 salt printed as nothing")
mut("c05-caa-flag-order", "C05", "types.go", "	return rr.Hdr.String() + strconv.Itoa(int(rr.Flag)) + \" \" + rr.Tag + \" \" + sprintTxtOctet(rr.Value)", "	return rr.Hdr.String() + strconv.Itoa(int(rr.Flag)&127) + \" \" + rr.Tag + \" \" + sprintTxtOctet(rr.Value)", "CAA critical flag bit lost in the text form")
mut("c05-octet-escape-ddd", "C05", "types.go", "func sprintTxtOctet(s string) string {", "func sprintTxtOctet(s string) string {\n	s = strings.ReplaceAll(s, \"\\\\009\", \" \")", "tab in CAA/URI text printed raw")
