#!/usr/bin/env python3
"""Sensitivity harness: applies each mutant of mutants.py as a `go build -overlay` (nothing in /repo is
touched), checks that it compiles and keeps the repository's own test suite green, then runs the property's
quick check and expects exit 1. Usage: run.py [--prop Cxx] [--id mutant-id] [--nobaseline] [--tier quick]
Results are appended to results.jsonl; table.py renders SENSITIVITY.md."""
import argparse, json, os, subprocess, sys, time, shutil, hashlib

HERE = os.path.dirname(os.path.abspath(__file__))
sys.path.insert(0, HERE)
from mutants import MUTANTS  # noqa

def env():
    e = dict(os.environ)
    e.update(GOFLAGS="-mod=mod", GOPROXY="off", GOTOOLCHAIN="auto")
    e.pop("GOSUMDB", None)
    return e

def main():
    ap = argparse.ArgumentParser()
    ap.add_argument("--prop"); ap.add_argument("--id"); ap.add_argument("--nobaseline", action="store_true")
    ap.add_argument("--tier", default="quick"); ap.add_argument("--seed", default="1")
    a = ap.parse_args()
    rc_all = 0
    for m in MUTANTS:
        if a.prop and m["prop"] != a.prop: continue
        if a.id and m["id"] != a.id: continue
        work = "/tmp/verif-mut/%s-%d" % (m["id"], os.getpid())
        shutil.rmtree(work, ignore_errors=True); os.makedirs(work)
        repl = {}
        ok = True
        for edit in m["edits"]:
            src = os.path.join("/repo", edit["file"])
            dst = os.path.join(work, edit["file"].replace("/", "_"))
            s = open(repl.get(src, src)).read()
            if s.count(edit["old"]) < 1:
                print("MUTANT %s: pattern not found in %s" % (m["id"], edit["file"])); ok = False; break
            s = s.replace(edit["old"], edit["new"], edit.get("count", 1))
            open(dst, "w").write(s); repl[src] = dst
        if not ok:
            rc_all = 2; continue
        ov = os.path.join(work, "ov.json")
        json.dump({"Replace": repl}, open(ov, "w"))
        res = dict(id=m["id"], prop=m["prop"], note=m.get("note", ""), tier=a.tier, at=time.strftime("%Y-%m-%d %H:%M"))
        p = subprocess.run(["go", "build", "-overlay=" + ov, "./..."], cwd="/repo", env=env(), capture_output=True, text=True)
        res["compiles"] = p.returncode == 0
        if not res["compiles"]:
            print("MUTANT %s does not compile:\n%s" % (m["id"], p.stderr[-800:]))
        elif not a.nobaseline:
            p = subprocess.run(["go", "test", "-overlay=" + ov, "-vet=off", "-count=1", "-timeout", "20m", "./..."], cwd="/repo", env=env(), capture_output=True, text=True)
            res["baseline_green"] = p.returncode == 0
            if p.returncode != 0:
                print("MUTANT %s breaks the repository's own tests:\n%s" % (m["id"], (p.stdout + p.stderr)[-1200:]))
        if res["compiles"]:
            e = env(); e["VERIF_OVERLAY"] = ov; e["VERIF_SEED"] = a.seed
            t0 = time.time()
            p = subprocess.run(["/verif/vcheck", m["prop"], "--tier", a.tier], env=e, capture_output=True, text=True)
            res["check_exit"] = p.returncode; res["check_s"] = round(time.time() - t0, 1)
            viol = [l for l in p.stdout.splitlines() if l.startswith("VIOLATION")]
            first = ""
            lines = p.stdout.splitlines()
            for i, l in enumerate(lines):
                if l.startswith("VIOLATION") and i + 1 < len(lines):
                    first = lines[i + 1].strip()[:300]; break
            res["caught"] = p.returncode == 1 and bool(viol)
            res["first_violation"] = first
            print("%-34s %-4s compiles=%s baseline=%s caught=%s (%ss) %s" % (m["id"], m["prop"], res["compiles"], res.get("baseline_green"), res["caught"], res["check_s"], first[:140]))
            if p.returncode == 2:
                print(p.stdout[-1500:])
        open(os.path.join(HERE, "results.jsonl"), "a").write(json.dumps(res) + "\n")
        shutil.rmtree(work, ignore_errors=True)
    return rc_all

if __name__ == "__main__":
    sys.exit(main())
