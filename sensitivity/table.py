#!/usr/bin/env python3
"""Renders /verif/SENSITIVITY.md from sensitivity/results.jsonl (latest result per mutant) and appends the
per-package SENSITIVITY.md files written for the other properties."""
import json, os, glob
HERE = os.path.dirname(os.path.abspath(__file__))
ROOT = os.path.dirname(HERE)
import sys
sys.path.insert(0, HERE)
from mutants import MUTANTS
latest = {}
base = {}
for l in open(os.path.join(HERE, "results.jsonl")):
    r = json.loads(l)
    if "baseline_green" in r: base[r["id"]] = r["baseline_green"]
    latest[r["id"]] = r
out = ["# Sensitivity: hand-made mutants of miekg/dns vs. the quick tier of each check", "",
       "Each mutant is a single-site change applied through `go build -overlay` (nothing is written into /repo); see",
       "`sensitivity/mutants.py` for the exact edits and `sensitivity/run.py` for the procedure. *suite* = the repository's own",
       "test suite still passes with the mutant (only those are realistic regressions; the others are kept as extra evidence).",
       "Independent, sub-agent-made changes are under `seeded/` (see DESIGN.md §7.5).", "",
       "| mutant | property | what it changes | compiles | suite green | caught by quick | first violation reported |", "|---|---|---|---|---|---|---|"]
for m in MUTANTS:
    r = latest.get(m["id"])
    if not r: continue
    out.append("| %s | %s | %s | %s | %s | %s | %s |" % (m["id"], m["prop"], m["note"].replace("|", "\\|"), r.get("compiles"), base.get(m["id"], "n/a"), r.get("caught"), (r.get("first_violation") or "").replace("|", "\\|")[:160]))
out.append("")
for f in sorted(glob.glob(os.path.join(ROOT, "harness", "c[0-9][0-9]", "SENSITIVITY.md"))):
    out.append("\n---\n\n## from %s\n" % os.path.relpath(f, ROOT))
    out.append(open(f).read())
open(os.path.join(ROOT, "SENSITIVITY.md"), "w").write("\n".join(out) + "\n")
print("SENSITIVITY.md written:", sum(1 for m in MUTANTS if m["id"] in latest), "mutants")
