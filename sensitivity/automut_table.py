#!/usr/bin/env python3
"""Renders sensitivity/AUTOMUT.md from automut.results.jsonl (latest result per mutant) and automut.triage.json."""
import json, os
from collections import Counter, OrderedDict
HERE = os.path.dirname(os.path.abspath(__file__))
latest = OrderedDict()
for l in open(os.path.join(HERE, "automut.results.jsonl")):
    r = json.loads(l)
    latest[r["id"]] = r
triage = json.load(open(os.path.join(HERE, "automut.triage.json")))
def status(r):
    if not r.get("compiles"): return "does not compile"
    if not r.get("suite_green"): return "killed by the repository's tests"
    return "caught" if r.get("caught") else "survived"
per = {}
for r in latest.values():
    per.setdefault(r["file"], Counter())[status(r)] += 1
out = ["# Automatic mutation campaign (sensitivity/automut.py)", "",
       "Single-token mutants (relational and boolean operators, +-1, true/false, dropped clone, a few constants), spread evenly over each",
       "file, applied through a build overlay. Only mutants that compile and keep the repository's own suite green count: for those the quick",
       "tier of every property mapped to the file is run (first report wins). Survivors are triaged by hand in `automut.triage.json`:",
       "*equivalent* (no observable difference), *outside* (observable, but not covered by any listed property), or *gap closed* (a check was",
       "strengthened and the mutant is caught on re-run).", "",
       "| file | mutants | do not compile | killed by repo tests | suite green | caught by a check | survived |", "|---|---|---|---|---|---|---|"]
tot = Counter()
for f in sorted(per):
    c = per[f]; n = sum(c.values()); green = c["caught"] + c["survived"]
    out.append("| %s | %d | %d | %d | %d | %d | %d |" % (f, n, c["does not compile"], c["killed by the repository's tests"], green, c["caught"], c["survived"]))
    tot.update(c)
n = sum(tot.values()); green = tot["caught"] + tot["survived"]
out.append("| **total** | %d | %d | %d | %d | %d | %d |" % (n, tot["does not compile"], tot["killed by the repository's tests"], green, tot["caught"], tot["survived"]))
out += ["", "## Survivors (suite green, no check reported) and their triage", "", "| mutant | change | verdict |", "|---|---|---|"]
untriaged = 0
for r in latest.values():
    if r.get("suite_green") and not r.get("caught"):
        v = triage.get(r["id"], "**not triaged yet**")
        if r["id"] not in triage: untriaged += 1
        out.append("| %s | `%s` -> `%s` | %s |" % (r["id"], r["old"][:70].replace("|", "\\|"), r["new"][:70].replace("|", "\\|"), v.replace("|", "\\|")))
out += ["", "## Survivors that led to a stronger check (now caught)", "", "| mutant | what was done |", "|---|---|"]
for k, v in triage.items():
    if v.startswith("gap closed") or v.startswith("caught by"):
        out.append("| %s | %s |" % (k, v))
open(os.path.join(HERE, "AUTOMUT.md"), "w").write("\n".join(out) + "\n")
print("AUTOMUT.md: %d mutants, %d suite-green, %d caught, %d survived (%d untriaged)" % (n, green, tot["caught"], tot["survived"], untriaged))
