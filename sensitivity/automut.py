#!/usr/bin/env python3
"""Automatic mutation campaign: machine-made single-token changes to miekg/dns, each applied through a
build overlay (nothing in /repo is touched). For every mutant that compiles AND keeps the repository's own
test suite green (the only ones that count as "realistic regressions the tests do not see"), the quick tier
of every property mapped to the file is run; a mutant no check reports is a SURVIVOR to be triaged
(equivalent mutant, outside every listed property, or a gap in a check).

usage: automut.py [--files a.go,b.go] [--max-per-file N] [--jobs N] [--out results.jsonl] [--list]
Results: sensitivity/automut.results.jsonl (one line per mutant); automut_table.py renders the summary."""
import argparse, concurrent.futures as cf, hashlib, json, os, re, shutil, subprocess, sys, time

HERE = os.path.dirname(os.path.abspath(__file__))
REPO = "/repo"

# which properties look at which source file
FILEMAP = {
    "msg.go": ["C01", "C02", "C03", "C04", "C08", "C16"],
    "msg_helpers.go": ["C01", "C02", "C05", "C08"],
    "msg_truncate.go": ["C09"],
    "labels.go": ["C19", "C03"],
    "defaults.go": ["C19", "C03", "C09", "C01"],
    "dnsutil/util.go": ["C19"],
    "types.go": ["C05", "C01", "C16", "C08", "C20"],
    "duplicate.go": ["C20"],
    "zduplicate.go": ["C20"],
    "sanitize.go": ["C20"],
    "ztypes.go": ["C16", "C08", "C01"],
    "zmsg.go": ["C01", "C02", "C04", "C03"],
    "svcb.go": ["C01", "C02", "C05", "C16", "C20", "C08"],
    "edns.go": ["C01", "C02", "C16", "C08", "C03"],
    "privaterr.go": ["C01", "C02", "C16"],
    "dns.go": ["C01", "C05"],
    "scan_rr.go": ["C05", "C06"],
    "scan.go": ["C06", "C07", "C05"],
    "generate.go": ["C06", "C07"],
    "dnssec.go": ["C10", "C17", "C18"],
    "dnssec_keygen.go": ["C17"],
    "dnssec_keyscan.go": ["C17"],
    "dnssec_privkey.go": ["C17"],
    "nsecx.go": ["C17"],
    "tsig.go": ["C11"],
    "sig0.go": ["C18"],
    "xfr.go": ["C15"],
    "serve_mux.go": ["C14"],
    "acceptfunc.go": ["C14"],
    "server.go": ["C13", "C14", "C12"],
    "client.go": ["C12"],
    "udp.go": ["C12"],
}

OPS = [
    (re.compile(r"<="), "<", "le->lt"),
    (re.compile(r">="), ">", "ge->gt"),
    (re.compile(r"(?<![<>=!:+\-*/&|^%-])<(?![<=-])"), "<=", "lt->le"),
    (re.compile(r"(?<![<>=!-])>(?![>=])"), ">=", "gt->ge"),
    (re.compile(r"=="), "!=", "eq->ne"),
    (re.compile(r"!="), "==", "ne->eq"),
    (re.compile(r"&&"), "||", "and->or"),
    (re.compile(r"\|\|"), "&&", "or->and"),
    (re.compile(r"\+ 1\b"), "+ 0", "plus1->plus0"),
    (re.compile(r"\+ 1\b"), "+ 2", "plus1->plus2"),
    (re.compile(r"- 1\b"), "- 0", "minus1->minus0"),
    (re.compile(r"\+1\b"), "+0", "plus1->plus0"),
    (re.compile(r"-1\b"), "-0", "minus1->minus0"),
    (re.compile(r"\btrue\b"), "false", "true->false"),
    (re.compile(r"\bfalse\b"), "true", "false->true"),
    (re.compile(r"cloneSlice\((\w+(?:\.\w+)*)\)"), r"\1", "drop-clone"),
    (re.compile(r"\boff\+2\b"), "off+1", "off2->off1"),
    (re.compile(r"\b0x0F\b|\b0xF\b"), "0x7", "mask"),
    (re.compile(r"\b255\b"), "254", "255->254"),
    (re.compile(r"\b63\b"), "62", "63->62"),
]


def env():
    e = dict(os.environ)
    e.update(GOFLAGS="-mod=mod", GOPROXY="off", GOTOOLCHAIN="auto")
    e.pop("GOSUMDB", None)
    return e


def block_sites(path):
    """dropped checks: `if COND {` whose body starts with return/continue/break becomes `if false && (COND) {`;
    dropped statements: a simple assignment or call on a line of its own is deleted"""
    src = open(os.path.join(REPO, path)).read().split("\n")
    for i, line in enumerate(src[:-1]):
        s = line.strip()
        if s.startswith("//") or "`" in line:
            continue
        m = re.match(r"^(\s*)if (.+) \{$", line)
        if m and not m.group(2).startswith("false") and ";" not in m.group(2):
            nxt = src[i + 1].strip()
            if nxt.startswith("return") or nxt in ("continue", "break") or nxt.startswith("goto "):
                yield i, "drop-check", "%sif false && (%s) {" % (m.group(1), m.group(2))
        if re.match(r"^\s*[A-Za-z_][\w.\[\]]* (=|\+=|-=|\|=|&\^=) [^{]*$", line) and not s.endswith(","):
            yield i, "drop-stmt", line[:len(line) - len(line.lstrip())] + "_ = 0 // " + s.replace("//", "")
        elif re.match(r"^\s*[a-z][\w.]*\([^{]*\)$", line) and not s.startswith(("return", "defer", "go ", "panic", "func")):
            yield i, "drop-call", line[:len(line) - len(line.lstrip())] + "_ = 0 // " + s.replace("//", "")


def sites(path):
    """yield (lineno, opname, newline) for every applicable operator (first match per operator per line)"""
    src = open(os.path.join(REPO, path)).read().split("\n")
    inblock = False
    for i, line in enumerate(src):
        s = line.strip()
        if s.startswith("/*"):
            inblock = True
        if inblock:
            if "*/" in s:
                inblock = False
            continue
        if not s or s.startswith("//") or s.startswith("import") or s.startswith("package") or s.startswith('"'):
            continue
        code = line.split("//")[0] if '"' not in line else line  # keep it simple: do not cut inside strings
        if "`" in code:
            continue
        # never touch string literals: blank them out for matching
        masked = re.sub(r'"(\\.|[^"\\])*"', lambda m: '"' + "\x00" * (len(m.group(0)) - 2) + '"', code)
        masked = re.sub(r"'(\\.|[^'\\])+'", lambda m: "'" + "\x00" * (len(m.group(0)) - 2) + "'", masked)
        for rx, rep, name in OPS:
            m = rx.search(masked)
            if not m:
                continue
            new = code[:m.start()] + rx.sub(rep, code[m.start():m.end()], 1) + code[m.end():]
            if new != code:
                yield i, name, new


def one(path, lineno, opname, newline, props, outdir, tier_seed):
    mid = "%s:%d:%s" % (path, lineno + 1, opname)
    h = hashlib.sha1(mid.encode()).hexdigest()[:10]
    work = "/tmp/verif-automut/%s" % h
    shutil.rmtree(work, ignore_errors=True)
    os.makedirs(work)
    res = dict(id=mid, file=path, line=lineno + 1, op=opname, at=time.strftime("%Y-%m-%d %H:%M"))
    try:
        src = open(os.path.join(REPO, path)).read().split("\n")
        res["old"] = src[lineno].strip()[:200]
        res["new"] = newline.strip()[:200]
        src[lineno] = newline
        dst = os.path.join(work, path.replace("/", "_"))
        open(dst, "w").write("\n".join(src))
        ov = os.path.join(work, "ov.json")
        json.dump({"Replace": {os.path.join(REPO, path): dst}}, open(ov, "w"))
        p = subprocess.run(["go", "build", "-overlay=" + ov, "./..."], cwd=REPO, env=env(), capture_output=True, text=True)
        res["compiles"] = p.returncode == 0
        if not res["compiles"]:
            return res
        p = subprocess.run(["go", "test", "-overlay=" + ov, "-vet=off", "-count=1", "-timeout", "10m", "./..."], cwd=REPO, env=env(), capture_output=True, text=True)
        res["suite_green"] = p.returncode == 0
        if not res["suite_green"]:
            fails = re.findall(r"--- FAIL: (\S+)", p.stdout)
            res["suite_fail"] = fails[:3] or [(p.stdout + p.stderr)[-200:]]
            return res
        res["checks"] = {}
        caught = False
        for prop in props:
            e = env()
            e["VERIF_OVERLAY"] = ov
            t0 = time.time()
            try:
                p = subprocess.run(["/verif/vcheck", prop, "--tier", "quick", "--seed", tier_seed], env=e, capture_output=True, text=True, timeout=1500)
                rc, out = p.returncode, p.stdout
            except subprocess.TimeoutExpired:
                rc, out = 2, "timeout"
            first = ""
            lines = out.splitlines()
            for i, l in enumerate(lines):
                if l.startswith("VIOLATION") and i + 1 < len(lines):
                    first = lines[i + 1].strip()[:200]
                    break
            res["checks"][prop] = dict(exit=rc, s=round(time.time() - t0, 1), first=first)
            if rc == 1:
                caught = True
                break  # one report is enough
        res["caught"] = caught
        return res
    finally:
        shutil.rmtree(work, ignore_errors=True)


def main():
    ap = argparse.ArgumentParser()
    ap.add_argument("--files")
    ap.add_argument("--max-per-file", type=int, default=40)
    ap.add_argument("--jobs", type=int, default=4)
    ap.add_argument("--seed", default="1")
    ap.add_argument("--out", default=os.path.join(HERE, "automut.results.jsonl"))
    ap.add_argument("--list", action="store_true")
    ap.add_argument("--blocks", action="store_true", help="use the dropped-check / dropped-statement operators instead of the token operators")
    ap.add_argument("--only", help="comma-separated mutant ids to (re)run even if already in the results file")
    ap.add_argument("--props", help="comma-separated properties to run instead of the file's mapping")
    a = ap.parse_args()
    files = a.files.split(",") if a.files else list(FILEMAP)
    done = set()
    if os.path.exists(a.out):
        for l in open(a.out):
            try:
                done.add(json.loads(l)["id"])
            except Exception:
                pass
    todo = []
    for f in files:
        ss = list(block_sites(f) if a.blocks else sites(f))
        # deterministic spread over the file
        if len(ss) > a.max_per_file and not a.only:
            step = len(ss) / a.max_per_file
            ss = [ss[int(k * step)] for k in range(a.max_per_file)]
        for (ln, op, new) in ss:
            mid = "%s:%d:%s" % (f, ln + 1, op)
            if (a.only and mid in a.only.split(",")) or (not a.only and mid not in done):
                todo.append((f, ln, op, new, a.props.split(",") if a.props else FILEMAP[f]))
    print("%d mutants to run (%d already done)" % (len(todo), len(done)))
    if a.list:
        for t in todo:
            print(t[0], t[1] + 1, t[2], t[3].strip())
        return 0
    with cf.ThreadPoolExecutor(max_workers=a.jobs) as ex:
        futs = [ex.submit(one, f, ln, op, new, props, a.out, a.seed) for (f, ln, op, new, props) in todo]
        for fu in cf.as_completed(futs):
            try:
                r = fu.result()
            except Exception as e:  # noqa
                print("ERROR", e)
                continue
            open(a.out, "a").write(json.dumps(r) + "\n")
            status = "nocompile" if not r.get("compiles") else ("suite-red" if not r.get("suite_green") else ("CAUGHT" if r.get("caught") else "SURVIVED"))
            print("%-10s %-40s %s  ->  %s" % (status, r["id"], r.get("old", "")[:60], r.get("new", "")[:60]), flush=True)
    return 0


if __name__ == "__main__":
    sys.exit(main())
